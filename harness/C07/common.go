package trickle

// Shared by the C07 and C08 harnesses (both are overlaid into package trickle).
//
// Stubs active under the engine only (natively the real code runs):
//   multihash.Sum            -> zzMhSum      (interned digest for concrete input, collision-free UF otherwise)
//   core.GetVariableHasher   -> zzGetHasher  (only the error is used by merkledag.checkHasher)
//   proto.Marshal/Unmarshal  -> zzPbMarshal / zzPbUnmarshal (wire codec of unixfs.proto Data / IPFSTimestamp)
// Harness implementations of interfaces the real code accepts: chunker.Splitter (zzSplit), ipld.DAGService (zzDag).

import (
	"context"
	"encoding/binary"
	"errors"
	"hash"
	"io"

	"github.com/ipfs/boxo/internal/verifrt"
	dag "github.com/ipfs/boxo/ipld/merkledag"
	ft "github.com/ipfs/boxo/ipld/unixfs"
	pb "github.com/ipfs/boxo/ipld/unixfs/pb"
	cid "github.com/ipfs/go-cid"
	ipld "github.com/ipfs/go-ipld-format"
	mh "github.com/multiformats/go-multihash"
	mhcore "github.com/multiformats/go-multihash/core"
	"google.golang.org/protobuf/proto"
)

// ---- multihash.Sum -------------------------------------------------------------------------------------
var zzIntern []string

// Concrete input: an interned digest (01 | index): one particular collision-free deterministic function, so
// that fully concrete DAG construction costs no solver work. Symbolic input: uninterpreted collision-free
// function whose digests start with FE (never equal to an interned one).
func zzMhSum(data []byte, code uint64, length int) (mh.Multihash, error) {
	if code == mh.IDENTITY {
		return mh.Encode(data, mh.IDENTITY)
	}
	if length < 0 {
		length = 32
		if code == mh.SHA2_512 {
			length = 64
		}
	}
	if verifrt.IsConcrete(data) {
		key := string(data) + string(rune(code))
		idx := -1
		for i, k := range zzIntern {
			if k == key {
				idx = i
			}
		}
		if idx < 0 {
			idx = len(zzIntern)
			zzIntern = append(zzIntern, key)
		}
		d := make([]byte, length)
		d[0] = 0x01
		binary.BigEndian.PutUint32(d[1:], uint32(idx))
		return mh.Encode(d, code)
	}
	algo := "crypto:mh-sha2-256"
	if code != mh.SHA2_256 {
		algo = "crypto:mh-other"
	}
	d := verifrt.HashUF(algo, data, length)
	verifrt.Assume(d[0] == 0xFE)
	return mh.Encode(d, code)
}

func zzGetHasher(code uint64, sizeHint int) (hash.Hash, error) {
	switch code {
	case mh.IDENTITY, mh.SHA2_256, mh.SHA2_512, mh.SHA1:
		return nil, nil
	}
	return nil, mhcore.ErrSumNotSupported
}

// ---- protobuf model of unixfs pb.Data (engine only; natively protobuf-go runs) ----------------------------
func zzAppendVarint(b []byte, v uint64) []byte {
	for v >= 0x80 {
		b = append(b, byte(v)|0x80)
		v >>= 7
	}
	return append(b, byte(v))
}

func zzEncTimestamp(t *pb.IPFSTimestamp) ([]byte, error) {
	var b []byte
	if t.Seconds == nil {
		return nil, errors.New("required field seconds not set")
	}
	b = append(b, 0x08)
	b = zzAppendVarint(b, uint64(*t.Seconds))
	if t.Nanos != nil {
		b = append(b, 0x15)
		b = binary.LittleEndian.AppendUint32(b, *t.Nanos)
	}
	return b, nil
}

func zzEncData(d *pb.Data) ([]byte, error) {
	var b []byte
	if d.Type == nil {
		return nil, errors.New("required field Type not set")
	}
	b = append(b, 0x08)
	b = zzAppendVarint(b, uint64(int64(int32(*d.Type))))
	if d.Data != nil {
		b = append(b, 0x12)
		b = zzAppendVarint(b, uint64(len(d.Data)))
		b = append(b, d.Data...)
	}
	if d.Filesize != nil {
		b = append(b, 0x18)
		b = zzAppendVarint(b, *d.Filesize)
	}
	for _, s := range d.Blocksizes {
		b = append(b, 0x20)
		b = zzAppendVarint(b, s)
	}
	if d.HashType != nil {
		b = append(b, 0x28)
		b = zzAppendVarint(b, *d.HashType)
	}
	if d.Fanout != nil {
		b = append(b, 0x30)
		b = zzAppendVarint(b, *d.Fanout)
	}
	if d.Mode != nil {
		b = append(b, 0x38)
		b = zzAppendVarint(b, uint64(*d.Mode))
	}
	if d.Mtime != nil {
		tb, err := zzEncTimestamp(d.Mtime)
		if err != nil {
			return nil, err
		}
		b = append(b, 0x42)
		b = zzAppendVarint(b, uint64(len(tb)))
		b = append(b, tb...)
	}
	return b, nil
}

func zzPbMarshal(m proto.Message) ([]byte, error) {
	switch x := m.(type) {
	case *pb.Data:
		return zzEncData(x)
	case *pb.IPFSTimestamp:
		return zzEncTimestamp(x)
	}
	panic("zzPbMarshal: unmodelled message type")
}

var errZzTrunc = errors.New("proto: truncated")

func zzReadVarint(b []byte, i int) (uint64, int, error) {
	var v uint64
	for shift := uint(0); shift < 70; shift += 7 {
		if i >= len(b) {
			return 0, i, errZzTrunc
		}
		c := b[i]
		i++
		v |= uint64(c&0x7f) << shift
		if c < 0x80 {
			return v, i, nil
		}
	}
	return 0, i, errors.New("proto: varint overflow")
}

func zzSkip(b []byte, i int, wt uint64) (int, error) {
	switch wt {
	case 0:
		_, j, err := zzReadVarint(b, i)
		return j, err
	case 1:
		if i+8 > len(b) {
			return i, errZzTrunc
		}
		return i + 8, nil
	case 2:
		l, j, err := zzReadVarint(b, i)
		if err != nil {
			return j, err
		}
		if uint64(len(b)-j) < l {
			return j, errZzTrunc
		}
		return j + int(l), nil
	case 5:
		if i+4 > len(b) {
			return i, errZzTrunc
		}
		return i + 4, nil
	}
	return i, errors.New("proto: bad wire type")
}

func zzDecTimestamp(b []byte, t *pb.IPFSTimestamp) error {
	t.Seconds, t.Nanos = nil, nil
	i := 0
	for i < len(b) {
		tag, j, err := zzReadVarint(b, i)
		if err != nil {
			return err
		}
		i = j
		switch tag {
		case 0x08:
			v, j, err := zzReadVarint(b, i)
			if err != nil {
				return err
			}
			i = j
			s := int64(v)
			t.Seconds = &s
		case 0x15:
			if i+4 > len(b) {
				return errZzTrunc
			}
			n := binary.LittleEndian.Uint32(b[i:])
			i += 4
			t.Nanos = &n
		default:
			if i, err = zzSkip(b, i, tag&7); err != nil {
				return err
			}
		}
	}
	if t.Seconds == nil {
		return errors.New("proto: required field seconds not set")
	}
	return nil
}

func zzDecData(b []byte, d *pb.Data) error {
	d.Type, d.Data, d.Filesize, d.Blocksizes, d.HashType, d.Fanout, d.Mode, d.Mtime = nil, nil, nil, nil, nil, nil, nil, nil
	i := 0
	for i < len(b) {
		tag, j, err := zzReadVarint(b, i)
		if err != nil {
			return err
		}
		i = j
		switch tag {
		case 0x08, 0x18, 0x20, 0x28, 0x30, 0x38:
			v, j, err := zzReadVarint(b, i)
			if err != nil {
				return err
			}
			i = j
			switch tag {
			case 0x08:
				t := pb.Data_DataType(int32(v))
				d.Type = &t
			case 0x18:
				d.Filesize = &v
			case 0x20:
				d.Blocksizes = append(d.Blocksizes, v)
			case 0x28:
				d.HashType = &v
			case 0x30:
				d.Fanout = &v
			case 0x38:
				m := uint32(v)
				d.Mode = &m
			}
		case 0x12, 0x42:
			l, j, err := zzReadVarint(b, i)
			if err != nil {
				return err
			}
			i = j
			if uint64(len(b)-i) < l {
				return errZzTrunc
			}
			body := b[i : i+int(l)]
			i += int(l)
			if tag == 0x12 {
				d.Data = append([]byte{}, body...)
			} else {
				if d.Mtime == nil {
					d.Mtime = &pb.IPFSTimestamp{}
				}
				if err := zzDecTimestamp(body, d.Mtime); err != nil {
					return err
				}
			}
		default:
			if i, err = zzSkip(b, i, tag&7); err != nil {
				return err
			}
		}
	}
	if d.Type == nil {
		return errors.New("proto: required field Type not set")
	}
	return nil
}

func zzPbUnmarshal(b []byte, m proto.Message) error {
	switch x := m.(type) {
	case *pb.Data:
		return zzDecData(b, x)
	case *pb.IPFSTimestamp:
		return zzDecTimestamp(b, x)
	}
	panic("zzPbUnmarshal: unmodelled message type")
}

// ---- in-memory DAG service -------------------------------------------------------------------------------
// Like a block-backed service it snapshots a node when it is added and hands out a fresh node on every Get.
type zzDag struct {
	keys  []string
	nodes []ipld.Node
	adds  int
}

func zzCloneNode(n ipld.Node) ipld.Node {
	switch nd := n.(type) {
	case *dag.ProtoNode:
		var d []byte
		if nd.Data() != nil {
			d = make([]byte, len(nd.Data()))
			copy(d, nd.Data())
		}
		c := dag.NodeWithData(d)
		c.SetCidBuilder(nd.CidBuilder())
		for _, l := range nd.Links() {
			c.AddRawLink(l.Name, l)
		}
		return c
	default:
		return n // raw nodes are immutable
	}
}

func (d *zzDag) find(k string) int {
	for i := range d.keys {
		if d.keys[i] == k {
			return i
		}
	}
	return -1
}

func (d *zzDag) Get(ctx context.Context, c cid.Cid) (ipld.Node, error) {
	if i := d.find(c.KeyString()); i >= 0 {
		return zzCloneNode(d.nodes[i]), nil
	}
	return nil, ipld.ErrNotFound{Cid: c}
}

func (d *zzDag) GetMany(ctx context.Context, cs []cid.Cid) <-chan *ipld.NodeOption {
	out := make(chan *ipld.NodeOption, len(cs))
	for _, c := range cs {
		n, err := d.Get(ctx, c)
		out <- &ipld.NodeOption{Node: n, Err: err}
	}
	close(out)
	return out
}

func (d *zzDag) Add(ctx context.Context, n ipld.Node) error {
	d.adds++
	k := n.Cid().KeyString()
	if d.find(k) >= 0 {
		return nil
	}
	d.keys = append(d.keys, k)
	d.nodes = append(d.nodes, zzCloneNode(n))
	return nil
}

func (d *zzDag) AddMany(ctx context.Context, ns []ipld.Node) error {
	for _, n := range ns {
		if err := d.Add(ctx, n); err != nil {
			return err
		}
	}
	return nil
}

func (d *zzDag) Remove(ctx context.Context, c cid.Cid) error        { return nil }
func (d *zzDag) RemoveMany(ctx context.Context, cs []cid.Cid) error { return nil }

// ---- harness splitter: yields the given chunks, then io.EOF ----------------------------------------------
type zzSplit struct {
	chunks [][]byte
	i      int
}

func (s *zzSplit) Reader() io.Reader { return nil }

func (s *zzSplit) NextBytes() ([]byte, error) {
	if s.i >= len(s.chunks) {
		return nil, io.EOF
	}
	c := s.chunks[s.i]
	s.i++
	return c, nil
}

// zzChunks makes n chunks. size pattern: 0 = all 1 byte; 1 = 1,2,3,1,2,3,..; 2 = all 2 bytes, last 1.
// fill: 0 = distinct concrete bytes; 1 = two byte values only (many identical chunks: de-duplication); 2 = symbolic bytes, chunks
// assumed pairwise different; 3 = symbolic bytes, unconstrained (the engine forks over which chunks coincide).
func zzChunks(tag string, n, sizePat, fill int, base int) [][]byte {
	var out [][]byte
	for i := 0; i < n; i++ {
		sz := 1
		switch sizePat {
		case 1:
			sz = i%3 + 1
		case 2:
			sz = 2
			if i == n-1 {
				sz = 1
			}
		}
		var c []byte
		switch fill {
		case 0:
			c = make([]byte, sz, sz+2) // capacity differs from length, as with real splitters
			for j := range c {
				c[j] = byte(base + 7*i + 3*j + 1)
			}
		case 1:
			// two byte values only, switching every second chunk: adjacent and distant chunks coincide
			c = make([]byte, sz)
			for j := range c {
				c[j] = 0x5a + byte((i/2)%2)
			}
		default:
			c = verifrt.NondetBytes(tag, sz)
			if fill == 2 {
				// different from every earlier chunk of the same length (chunks of other lengths differ anyway)
				for _, p := range out {
					if len(p) == sz {
						var x byte
						for j := range c {
							x |= c[j] ^ p[j]
						}
						verifrt.Assume(x != 0)
					}
				}
			}
		}
		out = append(out, c)
	}
	return out
}

func zzConcat(chunks [][]byte) []byte {
	var b []byte
	for _, c := range chunks {
		b = append(b, c...)
	}
	return b
}

// ---- decoded view of a file DAG ---------------------------------------------------------------------------
type zzNode struct {
	nd    ipld.Node
	raw   bool       // *dag.RawNode
	fs    *ft.FSNode // decoded UnixFS Data (dag-pb nodes)
	data  []byte     // payload: raw bytes or UnixFS Data field
	size  uint64     // recorded size: UnixFS filesize, or payload length for a raw node
	kids  []*zzNode
	depth int
}

// zzLoad decodes the DAG below nd, fetching children from ds. P is the property id used in assertion ids.
func zzLoad(P string, ds *zzDag, nd ipld.Node, depth int, count *int) *zzNode {
	*count++
	if *count > 4000 {
		panic("zzLoad: DAG too large (cycle?)")
	}
	z := &zzNode{nd: nd, depth: depth}
	switch n := nd.(type) {
	case *dag.RawNode:
		z.raw = true
		z.data = n.RawData()
		z.size = uint64(len(z.data))
		verifrt.Assert(P+".raw-node-has-no-links", len(n.Links()) == 0)
		return z
	case *dag.ProtoNode:
		fs, err := ft.FSNodeFromBytes(n.Data())
		verifrt.Assert(P+".node-decodes", err == nil)
		if err != nil {
			return z
		}
		z.fs = fs
		z.data = fs.Data()
		z.size = fs.FileSize()
		for _, l := range n.Links() {
			c, err := ds.Get(context.Background(), l.Cid)
			verifrt.Assert(P+".child-stored", err == nil)
			if err != nil {
				continue
			}
			z.kids = append(z.kids, zzLoad(P, ds, c, depth+1, count))
		}
		verifrt.Assert(P+".links-named-empty", zzAllLinksUnnamed(n))
		return z
	}
	verifrt.Assert(P+".node-kind", false)
	return z
}

func zzAllLinksUnnamed(n *dag.ProtoNode) bool {
	for _, l := range n.Links() {
		if l.Name != "" {
			return false
		}
	}
	return true
}

// zzCheckSizes asserts the size bookkeeping of every node below z and returns the content length below z.
func zzCheckSizes(P string, z *zzNode) uint64 {
	if len(z.kids) == 0 {
		if z.fs != nil {
			verifrt.Assert(P+".leaf-has-no-blocksizes", z.fs.NumChildren() == 0)
		}
		verifrt.Assert(P+".leaf-size-is-content-length", z.size == uint64(len(z.data)))
		return uint64(len(z.data))
	}
	verifrt.Assert(P+".blocksizes-count", z.fs.NumChildren() == len(z.kids))
	verifrt.Assert(P+".internal-node-has-no-data", len(z.data) == 0)
	var sumRec, sumContent uint64
	for i, k := range z.kids {
		kc := zzCheckSizes(P, k)
		sumContent += kc
		if i < z.fs.NumChildren() {
			bs := z.fs.BlockSize(i)
			verifrt.Assert(P+".blocksize-is-child-size", bs == k.size)
			verifrt.Assert(P+".blocksize-is-child-content-length", bs == kc)
			sumRec += bs
		}
	}
	verifrt.Assert(P+".filesize-is-sum-of-blocksizes", z.size == sumRec)
	verifrt.Assert(P+".filesize-is-content-length", z.size == sumContent)
	return sumContent
}

// zzLeaves returns the payloads of the leaves below z in order.
func zzLeaves(z *zzNode, out [][]byte) [][]byte {
	if len(z.kids) == 0 {
		return append(out, z.data)
	}
	for _, k := range z.kids {
		out = zzLeaves(k, out)
	}
	return out
}

func zzCountLeaves(z *zzNode) int {
	if len(z.kids) == 0 {
		return 1
	}
	n := 0
	for _, k := range z.kids {
		n += zzCountLeaves(k)
	}
	return n
}

func zzBytesEq(a, b []byte) bool {
	if len(a) != len(b) {
		return false
	}
	var x byte
	for i := range a {
		x |= a[i] ^ b[i]
	}
	return x == 0
}

// zzCheckContent: the leaves in order are exactly the chunks.
func zzCheckContent(P string, root *zzNode, chunks [][]byte) {
	leaves := zzLeaves(root, nil)
	if len(chunks) == 0 {
		verifrt.Assert(P+".empty-file-is-one-empty-leaf", len(leaves) == 1 && len(leaves[0]) == 0)
		return
	}
	verifrt.Assert(P+".leaf-count", len(leaves) == len(chunks))
	if len(leaves) != len(chunks) {
		// still compare the byte stream
		verifrt.Assert(P+".content-roundtrip", zzBytesEq(zzConcat(leaves), zzConcat(chunks)))
		return
	}
	ok := true
	for i := range leaves {
		ok = ok && zzBytesEq(leaves[i], chunks[i])
	}
	verifrt.Assert(P+".content-roundtrip", ok)
}

// zzCheckNoAttrs: no node other than the root carries mode/mtime.
func zzCheckNoAttrs(P string, z *zzNode, isRoot bool) {
	if !isRoot && z.fs != nil {
		verifrt.Assert(P+".attributes-only-on-root", z.fs.Mode() == 0 && z.fs.ModTime().IsZero())
	}
	for _, k := range z.kids {
		zzCheckNoAttrs(P, k, false)
	}
}

// zzCheckKinds: leaf representation and CID prefix follow the configuration. Internal nodes are dag-pb UnixFS
// File nodes; leaves are raw nodes iff raw leaves were requested, otherwise UnixFS nodes of type leafType.
func zzCheckKinds(P string, z *zzNode, prefix cid.Prefix, rawLeaves bool, leafType pb.Data_DataType, soleLeafRoot bool) {
	got := z.nd.Cid().Prefix()
	want := prefix
	if z.raw {
		want.Codec = cid.Raw
		want.Version = 1
	} else {
		want.Codec = cid.DagProtobuf
	}
	if want.MhLength == -1 {
		want.MhLength = got.MhLength
	}
	verifrt.Assert(P+".cid-prefix", got == want)
	if len(z.kids) == 0 && !soleLeafRoot {
		verifrt.Assert(P+".leaf-kind", z.raw == rawLeaves)
		if z.fs != nil {
			verifrt.Assert(P+".leaf-unixfs-type", z.fs.Type() == leafType)
		}
	}
	if len(z.kids) > 0 {
		verifrt.Assert(P+".internal-unixfs-type", z.fs != nil && z.fs.Type() == ft.TFile)
	}
	for _, k := range z.kids {
		zzCheckKinds(P, k, prefix, rawLeaves, leafType, false)
	}
}

// ---- independent trickle shape checker ---------------------------------------------------------------------
// Rule (package documentation + Layout): a trickle node of limit L (root: unlimited) has first up to `width`
// leaves; further children come in layers of depthRepeat sub-trees, the sub-trees of layer k (k = 1, 2, ...)
// being trickle nodes of limit k, with k < L. A node of limit 1 therefore has leaves only.
// strict additionally demands the canonical fill order: leaves are present in full before any sub-tree, and
// every sub-tree except the last one of a node is complete.
func zzTrickleShape(P string, z *zzNode, limit int, width int) {
	for i, k := range z.kids {
		if i < width {
			verifrt.Assert(P+".trickle-direct-children-are-leaves", len(k.kids) == 0 && (k.raw || (k.fs != nil && k.fs.Type() == ft.TRaw)))
			continue
		}
		layer := (i-width)/depthRepeat + 1
		verifrt.Assert(P+".trickle-subtree-not-a-data-leaf", !k.raw && k.fs != nil && k.fs.Type() == ft.TFile)
		verifrt.Assert(P+".trickle-layer-within-limit", limit < 0 || layer < limit)
		if k.raw || k.fs == nil {
			continue
		}
		zzTrickleShape(P, k, layer, width)
	}
}

// zzTrickleCap is the number of leaves of a complete trickle node of the given limit.
func zzTrickleCap(limit, width int) int {
	n := width
	for k := 1; k < limit; k++ {
		n += depthRepeat * zzTrickleCap(k, width)
	}
	return n
}

// zzTrickleFilled: canonical fill (what Layout produces for a stream): every child except the last is complete
// and a sub-tree only follows `width` leaves.
func zzTrickleFilled(z *zzNode, width int) bool {
	ok := true
	for i, k := range z.kids {
		if i < width {
			continue
		}
		layer := (i-width)/depthRepeat + 1
		if i < len(z.kids)-1 {
			ok = ok && zzCountLeaves(k) == zzTrickleCap(layer, width)
		}
		ok = ok && len(k.kids) > 0 && zzTrickleFilled(k, width)
	}
	return ok
}

var _ = errors.New
