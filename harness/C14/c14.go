package dagutils

import (
	"context"
	"encoding/binary"

	"github.com/ipfs/boxo/internal/verifrt"
	dag "github.com/ipfs/boxo/ipld/merkledag"
	cid "github.com/ipfs/go-cid"
	ipld "github.com/ipfs/go-ipld-format"
	mh "github.com/multiformats/go-multihash"
	mhcore "github.com/multiformats/go-multihash/core"
	"hash"
)

// ---------------------------------------------------------------------------------------------------
// Environment
// ---------------------------------------------------------------------------------------------------

// zzvServ is an in-memory DAGService with the aliasing behaviour of the real one: Add stores a snapshot, Get hands
// out a fresh node. It holds the two trees (natively too); under the engine it also stands in for the editor's
// scratch service (NewMemoryDagService is bound to zzvNewMemoryDagService there).
type zzvServ struct {
	m     map[cid.Cid]*dag.ProtoNode
	order []cid.Cid
}

func zzvNewServ() *zzvServ { return &zzvServ{m: map[cid.Cid]*dag.ProtoNode{}} }

func (s *zzvServ) Get(ctx context.Context, c cid.Cid) (ipld.Node, error) {
	n, ok := s.m[c]
	if !ok && !zzvHashUF {
		// blocks are stored by multihash: a request through another CID of the same multihash (CIDv0 / CIDv1
		// alias) finds the block, and the node handed out carries the CID it was asked for (as
		// DecodeProtobufBlock does)
		for _, k := range s.order {
			if string(k.Hash()) == string(c.Hash()) {
				if st, ok2 := s.m[k]; ok2 {
					cp := st.Copy().(*dag.ProtoNode)
					if err := cp.SetCidBuilder(c.Prefix()); err != nil {
						panic(err)
					}
					return cp, nil
				}
			}
		}
	}
	if !ok {
		return nil, ipld.ErrNotFound{Cid: c}
	}
	return n.Copy(), nil
}

func (s *zzvServ) GetMany(ctx context.Context, cs []cid.Cid) <-chan *ipld.NodeOption {
	out := make(chan *ipld.NodeOption, len(cs))
	for _, c := range cs {
		n, err := s.Get(ctx, c)
		out <- &ipld.NodeOption{Node: n, Err: err}
	}
	close(out)
	return out
}

func (s *zzvServ) Add(ctx context.Context, n ipld.Node) error {
	pn, ok := n.(*dag.ProtoNode)
	if !ok {
		return dag.ErrNotProtobuf
	}
	c := pn.Cid()
	if _, ok := s.m[c]; !ok {
		s.order = append(s.order, c)
	}
	s.m[c] = pn.Copy().(*dag.ProtoNode)
	return nil
}

func (s *zzvServ) AddMany(ctx context.Context, ns []ipld.Node) error {
	for _, n := range ns {
		if err := s.Add(ctx, n); err != nil {
			return err
		}
	}
	return nil
}

func (s *zzvServ) Remove(ctx context.Context, c cid.Cid) error {
	delete(s.m, c)
	return nil
}

func (s *zzvServ) RemoveMany(ctx context.Context, cs []cid.Cid) error {
	for _, c := range cs {
		delete(s.m, c)
	}
	return nil
}

func zzvNewMemoryDagService() ipld.DAGService { return zzvNewServ() }

// zzvGetHasher is the engine-side stand-in for multihash/core.GetVariableHasher (the registry is filled from
// crypto/* constructors, which the engine does not run); only the error is looked at (ProtoNode.SetCidBuilder).
func zzvGetHasher(code uint64, sizeHint int) (hash.Hash, error) {
	if code == mh.SHA2_256 || code == mh.IDENTITY {
		return nil, nil
	}
	return nil, mhcore.ErrSumNotSupported
}

// Under the engine multihash.Sum (crypto) is bound to this stub: the digest of an input is the index of its first
// occurrence in a table of all inputs hashed so far — a function of the input, injective by construction.
var zzvHashed [][]byte

// zzvHashUF selects the second hash model: an uninterpreted function with pairwise collision freedom
// (verifrt.HashUF), used when the hashed bytes are symbolic, so that CIDs are symbolic values and every CID
// comparison made by Diff / the editor / the DAG service is a condition the solver decides.
var zzvHashUF bool

func zzvSum(data []byte, code uint64, length int) (mh.Multihash, error) {
	if zzvHashUF {
		return mh.Encode(verifrt.HashUF("crypto:sha256", data, 32), code)
	}
	idx := -1
	for i, d := range zzvHashed {
		if string(d) == string(data) {
			idx = i
			break
		}
	}
	if idx < 0 {
		idx = len(zzvHashed)
		zzvHashed = append(zzvHashed, append([]byte(nil), data...))
	}
	digest := make([]byte, 32)
	binary.BigEndian.PutUint32(digest, uint32(idx+1))
	digest[31] = 0xd1
	return mh.Encode(digest, code)
}

// ---------------------------------------------------------------------------------------------------
// Directory trees from a common pool
// ---------------------------------------------------------------------------------------------------

var zzvNames = []string{"p", "q", "r"}

// zzvTree: entry k of a directory is absent (0), one of the pool's files (1..F) or a sub-directory (F+1).
type zzvTree struct {
	kind [3]int
	sub  [3]*zzvTree
}

func zzvGenTree(tag string, depth, fan, files int) *zzvTree {
	t := &zzvTree{}
	top := fan
	if depth == 1 {
		fan = verifrt.Param("SUBFAN", fan) // fan-out of the deepest directories
	} else if depth < verifrt.Param("DEPTH", 2) {
		fan = verifrt.Param("MIDFAN", fan) // ... of the directories in between
	}
	for k := 0; k < fan; k++ {
		hi := files
		if depth > 1 {
			hi = files + 1
		}
		t.kind[k] = verifrt.NondetRange(tag, 0, hi)
		if t.kind[k] == files+1 {
			t.sub[k] = zzvGenTree(tag, depth-1, top, files)
		}
	}
	return t
}

// sameKinds: a name is a directory in both trees, a file in both, or missing in one.
func zzvSameKinds(a, b *zzvTree, files int) bool {
	for k := range a.kind {
		ka, kb := a.kind[k], b.kind[k]
		if ka == 0 || kb == 0 {
			continue
		}
		if (ka == files+1) != (kb == files+1) {
			return false
		}
		if ka == files+1 && !zzvSameKinds(a.sub[k], b.sub[k], files) {
			return false
		}
	}
	return true
}

func zzvEqualTrees(a, b *zzvTree, files int) bool {
	for k := range a.kind {
		if a.kind[k] != b.kind[k] {
			return false
		}
		if a.kind[k] == files+1 && !zzvEqualTrees(a.sub[k], b.sub[k], files) {
			return false
		}
	}
	return true
}

func zzvBuild(ctx context.Context, s *zzvServ, t *zzvTree, fileData [][]byte) *dag.ProtoNode {
	n := new(dag.ProtoNode)
	if verifrt.Param("DIRDATA", 0) != 0 {
		n = dag.NodeWithData([]byte{0x08, 0x01}) // every directory carries the same (UnixFS "directory") payload
	}
	for k, kind := range t.kind {
		if kind == 0 {
			continue
		}
		var child *dag.ProtoNode
		if kind == len(fileData) && verifrt.Param("ALIAS", 0) != 0 {
			// the last file kind is file 1 again, linked through the CIDv1 alias of its multihash: the same
			// block under another CID, so the parents differ although the children's bytes are equal
			child = dag.NodeWithData(fileData[0])
			if err := s.Add(ctx, child); err != nil {
				panic(err)
			}
			lnk, err := ipld.MakeLink(child)
			if err != nil {
				panic(err)
			}
			lnk.Cid = cid.NewCidV1(cid.DagProtobuf, child.Cid().Hash())
			if err := n.AddRawLink(zzvNames[k], lnk); err != nil {
				panic(err)
			}
			continue
		} else if kind <= len(fileData) {
			child = dag.NodeWithData(fileData[kind-1])
		} else {
			child = zzvBuild(ctx, s, t.sub[k], fileData)
		}
		if err := s.Add(ctx, child); err != nil {
			panic(err)
		}
		if err := n.AddNodeLink(zzvNames[k], child); err != nil {
			panic(err)
		}
	}
	if err := s.Add(ctx, n); err != nil {
		panic(err)
	}
	return n
}

// zzvListing renders a stored tree as sorted "path=cid" facts (for a by-content comparison besides the root CID).
func zzvClosed(ctx context.Context, s ipld.DAGService, n ipld.Node) bool {
	for _, l := range n.Links() {
		c, err := s.Get(ctx, l.Cid)
		if err != nil {
			return false
		}
		if !zzvClosed(ctx, s, c) {
			return false
		}
	}
	return true
}

func zzvRun(depth, fan, files int, mixKinds bool) {
	ctx := context.Background()
	zzvHashed = nil
	zzvHashUF = false
	fileData := make([][]byte, files)
	for i := range fileData {
		fileData[i] = []byte{'f', byte('0' + i)}
	}
	ta := zzvGenTree("a", depth, fan, files)
	tb := zzvGenTree("b", depth, fan, files)
	if !mixKinds {
		// outside the claim: a name that is a directory in one tree and a file in the other (see spec "outside")
		verifrt.Assume(zzvSameKinds(ta, tb, files))
	}
	s := zzvNewServ()
	a := zzvBuild(ctx, s, ta, fileData)
	b := zzvBuild(ctx, s, tb, fileData)
	same := zzvEqualTrees(ta, tb, files)
	verifrt.Assert("C14.model.cid-equality-is-tree-equality", (a.Cid() == b.Cid()) == same)

	changes, err := Diff(ctx, s, a, b)
	verifrt.Observe("nchanges", len(changes))
	verifrt.Assert("C14.diff-succeeds", err == nil)
	if same {
		verifrt.Assert("C14.diff-of-equal-trees-is-empty", len(changes) == 0)
	} else {
		verifrt.Assert("C14.diff-of-different-trees-is-not-empty", len(changes) > 0)
	}
	// a second Diff of the same pair gives the same change list (Diff does not disturb its inputs)
	aCid, bCid := a.Cid(), b.Cid()
	again, err2 := Diff(ctx, s, a, b)
	okAgain := err2 == nil && len(again) == len(changes)
	if okAgain {
		for i := range again {
			if *again[i] != *changes[i] {
				okAgain = false
			}
		}
	}
	verifrt.Assert("C14.diff-leaves-inputs-unchanged", okAgain && a.Cid() == aCid && b.Cid() == bCid)

	// apply to a fresh copy of a
	src, err := s.Get(ctx, aCid)
	if err != nil {
		panic(err)
	}
	res, err := ApplyChange(ctx, s, src.(*dag.ProtoNode), changes)
	verifrt.Observe("applied", err == nil)
	verifrt.Assert("C14.apply-succeeds", err == nil)
	if err == nil {
		verifrt.Assert("C14.apply-diff-reproduces-target-cid", res.Cid() == bCid)
		verifrt.Assert("C14.result-dag-is-complete-in-service", zzvClosed(ctx, s, res))
		back, err := Diff(ctx, s, res, b)
		verifrt.Assert("C14.result-has-no-diff-to-target", err == nil && len(back) == 0)
	}
	verifrt.Reach("end")
}

// HarnessC14DiffApplyFlat: flat directories with three names (link sorting, several changes in one directory).
func HarnessC14DiffApplyFlat() {
	zzvRun(verifrt.Param("DEPTH", 1), verifrt.Param("FAN", 3), verifrt.Param("FILES", 2), false)
}

// HarnessC14DiffApplyDeep: the same over deeper, narrower trees (three-segment paths).
func HarnessC14DiffApplyDeep() {
	zzvRun(verifrt.Param("DEPTH", 3), verifrt.Param("FAN", 2), verifrt.Param("FILES", 2), false)
}

// HarnessC14DiffApply: all pairs of directory trees over a common pool of files.
func HarnessC14DiffApply() {
	zzvRun(verifrt.Param("DEPTH", 2), verifrt.Param("FAN", 2), verifrt.Param("FILES", 2), verifrt.Param("MIX", 0) != 0)
}

// ---------------------------------------------------------------------------------------------------
// Symbolic leaf identities: tree SHAPE is forked, every file's payload is a symbolic byte. Which files of a and b
// are equal / replaced is then decided by the solver, through the (collision-free, uninterpreted) hash of the real
// dag-pb encodings: all CIDs are symbolic.
// ---------------------------------------------------------------------------------------------------

type zzvSymTree struct {
	kind [3]int // 0 absent, 1 file, 2 directory
	data [3]byte
	sub  [3]*zzvSymTree
}

func zzvGenSym(tag string, depth, fan, subfan int) *zzvSymTree {
	t := &zzvSymTree{}
	n := fan
	if depth == 1 {
		n = subfan
	}
	for k := 0; k < n; k++ {
		hi := 1
		if depth > 1 {
			hi = 2
		}
		t.kind[k] = verifrt.NondetRange(tag, 0, hi)
		switch t.kind[k] {
		case 1:
			t.data[k] = verifrt.NondetU8(tag + "data")
		case 2:
			t.sub[k] = zzvGenSym(tag, depth-1, fan, subfan)
		}
	}
	return t
}

func zzvSymSameKinds(a, b *zzvSymTree) bool {
	for k := range a.kind {
		if a.kind[k] == 0 || b.kind[k] == 0 {
			continue
		}
		if a.kind[k] != b.kind[k] {
			return false
		}
		if a.kind[k] == 2 && !zzvSymSameKinds(a.sub[k], b.sub[k]) {
			return false
		}
	}
	return true
}

// zzvSymDiffer: 0 iff the two trees are the same tree (same shape, and - decided by the solver - same payloads).
func zzvSymDiffer(a, b *zzvSymTree) byte {
	d := byte(0)
	for k := range a.kind {
		if a.kind[k] != b.kind[k] {
			return 1
		}
		switch a.kind[k] {
		case 1:
			d |= a.data[k] ^ b.data[k]
		case 2:
			d |= zzvSymDiffer(a.sub[k], b.sub[k])
		}
	}
	return d
}

func zzvSymBuild(ctx context.Context, s *zzvServ, t *zzvSymTree) *dag.ProtoNode {
	n := new(dag.ProtoNode)
	for k, kind := range t.kind {
		if kind == 0 {
			continue
		}
		var child *dag.ProtoNode
		if kind == 1 {
			child = dag.NodeWithData([]byte{'f', t.data[k]})
		} else {
			child = zzvSymBuild(ctx, s, t.sub[k])
		}
		if err := s.Add(ctx, child); err != nil {
			panic(err)
		}
		if err := n.AddNodeLink(zzvNames[k], child); err != nil {
			panic(err)
		}
	}
	if err := s.Add(ctx, n); err != nil {
		panic(err)
	}
	return n
}

// HarnessC14DiffApplySym: shapes forked, file payloads symbolic, CIDs symbolic (hash = collision-free UF).
func HarnessC14DiffApplySym() {
	ctx := context.Background()
	zzvHashUF = verifrt.Symbolic() && verifrt.Param("UF", 0) != 0
	zzvHashed = nil
	depth, fan, subfan := verifrt.Param("DEPTH", 2), verifrt.Param("FAN", 2), verifrt.Param("SUBFAN", 1)
	ta := zzvGenSym("a", depth, fan, subfan)
	tb := zzvGenSym("b", depth, fan, subfan)
	verifrt.Assume(zzvSymSameKinds(ta, tb)) // file <-> directory under one name is outside the claim (see spec)
	s := zzvNewServ()
	a := zzvSymBuild(ctx, s, ta)
	b := zzvSymBuild(ctx, s, tb)
	differ := zzvSymDiffer(ta, tb)
	aCid, bCid := a.Cid(), b.Cid()
	// content addressing: equal CIDs <=> equal trees (this is where the solver ties CIDs to payloads)
	if aCid == bCid {
		verifrt.Assert("C14.sym.model.equal-cids-mean-equal-trees", differ == 0)
	} else {
		verifrt.Assert("C14.sym.model.different-cids-mean-different-trees", differ != 0)
	}

	changes, err := Diff(ctx, s, a, b)
	verifrt.Observe("nchanges", len(changes))
	verifrt.Assert("C14.sym.diff-succeeds", err == nil)
	if len(changes) == 0 {
		verifrt.Assert("C14.sym.empty-diff-only-for-equal-trees", differ == 0)
	} else {
		verifrt.Assert("C14.sym.diff-of-equal-trees-is-empty", differ != 0)
	}
	src, err := s.Get(ctx, aCid)
	if err != nil {
		panic(err)
	}
	res, err := ApplyChange(ctx, s, src.(*dag.ProtoNode), changes)
	verifrt.Observe("applied", err == nil)
	verifrt.Assert("C14.sym.apply-succeeds", err == nil)
	if err == nil {
		verifrt.Assert("C14.sym.apply-diff-reproduces-target-cid", res.Cid() == bCid)
		back, err := Diff(ctx, s, res, b)
		verifrt.Assert("C14.sym.result-has-no-diff-to-target", err == nil && len(back) == 0)
	}
	// Diff(a, a) is empty
	self, err := Diff(ctx, s, a, a)
	verifrt.Assert("C14.sym.diff-with-itself-is-empty", err == nil && len(self) == 0)
	verifrt.Reach("end")
}
