package mod

import (
	"bytes"
	"context"
	"errors"
	"io"

	"github.com/ipfs/boxo/internal/verifrt"
	mdag "github.com/ipfs/boxo/ipld/merkledag"
	help "github.com/ipfs/boxo/ipld/unixfs/importer/helpers"
	uio "github.com/ipfs/boxo/ipld/unixfs/io"
	ipld "github.com/ipfs/go-ipld-format"
)

// ---------------------------------------------------------------------------------------------------------
// T1 kernels: the offset arithmetic of Seek and the buffer positioning of WriteAt, with the DAG surgery
// (Sync's flush, expandSparse, fileSize) replaced under the engine by a contract model. Natively the real
// functions run on a real file, so every witness / counterexample is also a differential test of the model.
// ---------------------------------------------------------------------------------------------------------

type zzFlush struct {
	at   uint64
	data []byte
}

// zzK is the contract model of the file below the modifier while a kernel entry runs under the engine.
var zzK struct {
	on      bool
	size    int64 // size of the flushed file
	expands int
	syncs   int
	events  []zzFlush // what Sync flushed where, in order
}

// stub for fileSize(node): the size of the flushed file.
func zzStubFileSize(n ipld.Node) (uint64, error) {
	if !zzK.on {
		return fileSize(n)
	}
	return uint64(zzK.size), nil
}

// stub for (*DagModifier).Sync: contract "the buffer lands at [writeStart, writeStart+len), the file grows to
// cover it, the buffer is dropped, writeStart moves past it, an active reader is dropped".
func zzStubSync(dm *DagModifier) error {
	if !zzK.on {
		return dm.Sync()
	}
	zzK.syncs++
	if dm.wrBuf == nil {
		return nil
	}
	if dm.read != nil {
		dm.read = nil
		dm.readCancel()
	}
	data := append([]byte(nil), dm.wrBuf.Bytes()...)
	zzK.events = append(zzK.events, zzFlush{at: dm.writeStart, data: data})
	end := int64(dm.writeStart) + int64(len(data))
	if end > zzK.size {
		zzK.size = end
	}
	dm.writeStart += uint64(len(data))
	dm.wrBuf = nil
	return nil
}

// stub for (*DagModifier).expandSparse: contract "append n zero bytes".
func zzStubExpand(dm *DagModifier, n int64) error {
	if !zzK.on {
		return dm.expandSparse(n)
	}
	zzK.expands++
	zzK.size += n
	return nil
}

// zzReader is a reference io.Seeker standing in for the UnixFS reader the modifier keeps while reading.
type zzReader struct {
	uio.DagReader
	pos, size int64
	seeks     int
}

func (r *zzReader) Seek(off int64, whence int) (int64, error) {
	r.seeks++
	var t int64
	switch whence {
	case io.SeekStart:
		t = off
	case io.SeekCurrent:
		t = r.pos + off
	case io.SeekEnd:
		t = r.size + off
	default:
		return 0, errors.New("zzReader: bad whence")
	}
	if t < 0 {
		return 0, errors.New("zzReader: negative position")
	}
	r.pos = t
	return t, nil
}

// zzKernelModifier builds a modifier over a file of `size` bytes all equal to fill. Under the engine there is
// no DAG at all (the stubs above carry the size); natively it is a real trickle DAG with 512-byte chunks.
func zzKernelModifier(size int64, fill byte) (*DagModifier, *zzDag) {
	ds := &zzDag{}
	var node ipld.Node
	if verifrt.Symbolic() {
		zzK.on = true
		zzK.size = size
		zzK.expands, zzK.syncs, zzK.events = 0, 0, nil
	} else {
		node = zzBuildFile(ds, bytes.Repeat([]byte{fill}, int(size)), 512, help.DefaultLinksPerBlock, mdag.V0CidPrefix(), false)
	}
	dm := &DagModifier{
		curNode:  node,
		dagserv:  ds,
		splitter: zzSplitter(512),
		ctx:      context.Background(),
		Prefix:   mdag.V0CidPrefix(),
		MaxLinks: help.DefaultLinksPerBlock,
	}
	return dm, ds
}

// HarnessC10Seek: Seek against io.Seeker ("offset relative to start / current offset / end; a negative
// resulting position or an unknown whence is an error") for symbolic file size, current offset, pending
// buffer length (0..2), offset and whence.
func HarnessC10Seek() {
	S := int64(verifrt.Param("S", 4096))
	size := verifrt.NondetI64("size")
	verifrt.Assume(size >= 0)
	verifrt.Assume(size <= S)
	L := verifrt.NondetRange("buflen", 0, 2)
	ws := verifrt.NondetI64("ws")
	verifrt.Assume(ws >= 0)
	verifrt.Assume(ws <= size+64)
	off := verifrt.NondetI64("offset")
	verifrt.Assume(off >= -(S + 200))
	verifrt.Assume(off <= S+200)
	whence := verifrt.NondetInt("whence")
	verifrt.Assume(whence >= -1)
	verifrt.Assume(whence <= 3)
	fill := verifrt.NondetU8("fill")
	withReader := false
	if L == 0 {
		withReader = verifrt.NondetBool("reader")
	}

	dm, _ := zzKernelModifier(size, fill)
	dm.writeStart = uint64(ws)
	dm.curWrOff = uint64(ws) + uint64(L)
	if L > 0 {
		dm.wrBuf = new(bytes.Buffer)
		dm.wrBuf.Write(verifrt.NondetBytes("buf", L))
	}
	var rd *zzReader
	if withReader {
		rd = &zzReader{pos: ws, size: size}
		dm.read = rd
		dm.readCancel = func() {}
	}

	// reference model: the pending buffer is part of the file
	cur := ws + int64(L)
	fsz := size
	if L > 0 && cur > size {
		fsz = cur
	}

	got, err := dm.Seek(off, whence)
	sz2, serr := dm.Size()
	verifrt.Observe("ret", got)
	verifrt.Observe("err", err != nil)
	verifrt.Observe("size2", sz2)
	verifrt.Observe("cur2", dm.curWrOff)
	verifrt.Assert("C10.seek-size-readable", serr == nil)

	var target int64
	valid := true
	which := "start"
	switch whence {
	case io.SeekStart:
		target = off
	case io.SeekCurrent:
		target = cur + off
		which = "current"
	case io.SeekEnd:
		target = fsz + off
		which = "end"
	default:
		valid = false
	}
	if !valid {
		verifrt.Assert("C10.seek-bad-whence-rejected", err != nil)
		verifrt.Assert("C10.seek-rejected-keeps-offset", dm.curWrOff == uint64(cur))
		verifrt.Assert("C10.seek-rejected-keeps-size", sz2 == fsz)
		verifrt.Reach("end")
		return
	}
	if target < 0 {
		verifrt.Assert("C10.seek-"+which+"-negative-rejected", err != nil)
		verifrt.Assert("C10.seek-rejected-keeps-offset", dm.curWrOff == uint64(cur))
		verifrt.Assert("C10.seek-rejected-keeps-size", sz2 == fsz)
		verifrt.Reach("end")
		return
	}
	verifrt.Assert("C10.seek-"+which+"-accepted", err == nil)
	if err != nil {
		verifrt.Reach("end")
		return
	}
	verifrt.Assert("C10.seek-"+which+"-result", got == target)
	// the next Write must land at the new position
	verifrt.Assert("C10.seek-"+which+"-position", dm.curWrOff == uint64(target))
	verifrt.Assert("C10.seek-"+which+"-write-start", dm.wrBuf == nil && dm.writeStart == uint64(target))
	// seeking never shrinks the file and grows it at most up to the new position
	hi := fsz
	if target > hi {
		hi = target
	}
	verifrt.Assert("C10.seek-size-lower", sz2 >= fsz)
	verifrt.Assert("C10.seek-size-upper", sz2 <= hi)
	if dm.read != nil {
		verifrt.Assert("C10.seek-reader-follows", rd != nil && rd.pos == target)
	}
	verifrt.Reach("end")
}

// HarnessC10WriteAt: K WriteAt calls with symbolic offsets and 1..2 symbolic bytes each, then Sync. The final
// file is compared with a byte-array model at one universally quantified probe position p.
func HarnessC10WriteAt() {
	S := int64(verifrt.Param("S", 4096))
	K := verifrt.Param("K", 2)
	size := verifrt.NondetI64("size")
	verifrt.Assume(size >= 0)
	verifrt.Assume(size <= S)
	cur := verifrt.NondetI64("cur")
	verifrt.Assume(cur >= 0)
	verifrt.Assume(cur <= size+64)
	fill := verifrt.NondetU8("fill")
	p := verifrt.NondetI64("p")
	verifrt.Assume(p >= 0)
	verifrt.Assume(p <= S+300)

	dm, ds := zzKernelModifier(size, fill)
	dm.writeStart = uint64(cur)
	dm.curWrOff = uint64(cur)

	// model
	msize := size
	var mv byte
	if p < size {
		mv = fill
	}
	for i := 0; i < K; i++ {
		n := verifrt.NondetRange("n", 1, verifrt.Param("NMAX", 2))
		b := verifrt.NondetBytes("b", n)
		off := verifrt.NondetI64("off")
		verifrt.Assume(off >= 0)
		verifrt.Assume(off <= S+200)
		wn, err := dm.WriteAt(b, off)
		verifrt.Observe("wn", wn)
		verifrt.Observe("werr", err != nil)
		verifrt.Assert("C10.writeat-return", err == nil && wn == n)
		if off+int64(n) > msize {
			msize = off + int64(n)
		}
		for j := 0; j < n; j++ {
			if off+int64(j) == p {
				mv = b[j]
			}
		}
	}
	verifrt.Assume(p < msize)
	err := dm.Sync()
	verifrt.Assert("C10.writeat-sync-ok", err == nil)
	sz, _ := dm.Size()
	verifrt.Observe("size", sz)
	verifrt.Assert("C10.writeat-size", sz == msize)

	var iv byte
	if verifrt.Symbolic() {
		if p < size {
			iv = fill
		}
		for _, ev := range zzK.events {
			for j := range ev.data {
				if ev.at+uint64(j) == uint64(p) {
					iv = ev.data[j]
				}
			}
		}
	} else {
		nd, err := dm.GetNode()
		if err != nil {
			panic(err)
		}
		content, err := zzReadAll(ds, nd)
		if err != nil {
			panic(err)
		}
		verifrt.Assert("C10.writeat-size", int64(len(content)) == msize)
		iv = content[p]
	}
	verifrt.Observe("byte", iv)
	verifrt.Assert("C10.writeat-byte", iv == mv)
	verifrt.Reach("end")
}

// HarnessC10WriteAtOne: one WriteAt (0..3 symbolic bytes, symbolic offset) issued while a write buffer of 0..2
// bytes is pending at a symbolic position; then Sync. Content at a probe position, size and the offset left
// behind are compared with the model. The model accepts both readings of "offset after WriteAt": unchanged
// (pwrite) or just past the written bytes (seek+write).
func HarnessC10WriteAtOne() {
	S := int64(verifrt.Param("S", 4096))
	size := verifrt.NondetI64("size")
	verifrt.Assume(size >= 0)
	verifrt.Assume(size <= S)
	L := verifrt.NondetRange("buflen", 0, 2)
	ws := verifrt.NondetI64("ws")
	verifrt.Assume(ws >= 0)
	verifrt.Assume(ws <= size+64)
	fill := verifrt.NondetU8("fill")
	p := verifrt.NondetI64("p")
	verifrt.Assume(p >= 0)
	verifrt.Assume(p <= S+300)
	n := verifrt.NondetRange("n", 0, 3)
	b := verifrt.NondetBytes("b", n)
	off := verifrt.NondetI64("off")
	verifrt.Assume(off >= 0)
	verifrt.Assume(off <= S+200)

	dm, ds := zzKernelModifier(size, fill)
	dm.writeStart = uint64(ws)
	dm.curWrOff = uint64(ws) + uint64(L)
	var pend []byte
	if L > 0 {
		pend = verifrt.NondetBytes("buf", L)
		dm.wrBuf = new(bytes.Buffer)
		dm.wrBuf.Write(pend)
	}
	cur := ws + int64(L)

	// model
	msize := size
	if L > 0 && cur > msize {
		msize = cur
	}
	if n > 0 && off+int64(n) > msize {
		msize = off + int64(n)
	}
	var mv byte
	if p < size {
		mv = fill
	}
	for j := 0; j < L; j++ {
		if ws+int64(j) == p {
			mv = pend[j]
		}
	}
	for j := 0; j < n; j++ {
		if off+int64(j) == p {
			mv = b[j]
		}
	}

	wn, err := dm.WriteAt(b, off)
	verifrt.Observe("wn", wn)
	verifrt.Observe("werr", err != nil)
	verifrt.Observe("cur2", dm.curWrOff)
	verifrt.Assert("C10.writeat1-return", err == nil && wn == n)
	after := dm.curWrOff

	err = dm.Sync()
	verifrt.Assert("C10.writeat1-sync-ok", err == nil)
	sz, _ := dm.Size()
	verifrt.Observe("size", sz)
	if n > 0 {
		verifrt.Assert("C10.writeat1-size", sz == msize)
	} else {
		// an empty write past the end may or may not extend the file up to its offset
		hi := msize
		if off > hi {
			hi = off
		}
		verifrt.Assert("C10.writeat1-size-empty-write", sz >= msize && sz <= hi)
	}
	verifrt.Assume(p < msize)
	var iv byte
	if verifrt.Symbolic() {
		if p < size {
			iv = fill
		}
		for _, ev := range zzK.events {
			for j := range ev.data {
				if ev.at+uint64(j) == uint64(p) {
					iv = ev.data[j]
				}
			}
		}
	} else {
		nd, err := dm.GetNode()
		if err != nil {
			panic(err)
		}
		content, err := zzReadAll(ds, nd)
		if err != nil {
			panic(err)
		}
		verifrt.Assert("C10.writeat1-size", int64(len(content)) == sz)
		iv = content[p]
	}
	verifrt.Observe("byte", iv)
	verifrt.Assert("C10.writeat1-byte", iv == mv)
	verifrt.Assert("C10.writeat1-offset-after", after == uint64(cur) || after == uint64(off)+uint64(n))
	verifrt.Reach("end")
}
