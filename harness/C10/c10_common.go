package mod

import (
	"bytes"
	"context"
	"io"

	chunker "github.com/ipfs/boxo/chunker"
	mdag "github.com/ipfs/boxo/ipld/merkledag"
	help "github.com/ipfs/boxo/ipld/unixfs/importer/helpers"
	trickle "github.com/ipfs/boxo/ipld/unixfs/importer/trickle"
	uio "github.com/ipfs/boxo/ipld/unixfs/io"
	cid "github.com/ipfs/go-cid"
	ipld "github.com/ipfs/go-ipld-format"
)

// zzDag is an in-memory ipld.DAGService. Like a real block-backed service it snapshots a node when it is added
// and hands out a fresh, unshared node on every Get (the real one serialises on Add and decodes on Get).
type zzDag struct {
	keys  []string
	nodes []ipld.Node
	adds  int
	gets  int
}

func zzCloneNode(n ipld.Node) ipld.Node {
	switch nd := n.(type) {
	case *mdag.ProtoNode:
		var d []byte
		if nd.Data() != nil {
			d = make([]byte, len(nd.Data()))
			copy(d, nd.Data())
		}
		c := mdag.NodeWithData(d)
		c.SetCidBuilder(nd.CidBuilder())
		for _, l := range nd.Links() {
			c.AddRawLink(l.Name, l)
		}
		return c
	default:
		return n // raw nodes are immutable
	}
}

func (d *zzDag) find(k string) int {
	for i := range d.keys {
		if d.keys[i] == k {
			return i
		}
	}
	return -1
}

func (d *zzDag) Get(ctx context.Context, c cid.Cid) (ipld.Node, error) {
	d.gets++
	if i := d.find(c.KeyString()); i >= 0 {
		return zzCloneNode(d.nodes[i]), nil
	}
	return nil, ipld.ErrNotFound{Cid: c}
}

func (d *zzDag) GetMany(ctx context.Context, cs []cid.Cid) <-chan *ipld.NodeOption {
	out := make(chan *ipld.NodeOption, len(cs))
	for _, c := range cs {
		n, err := d.Get(ctx, c)
		out <- &ipld.NodeOption{Node: n, Err: err}
	}
	close(out)
	return out
}

func (d *zzDag) Add(ctx context.Context, n ipld.Node) error {
	d.adds++
	k := n.Cid().KeyString()
	if d.find(k) >= 0 {
		return nil
	}
	d.keys = append(d.keys, k)
	d.nodes = append(d.nodes, zzCloneNode(n))
	return nil
}

func (d *zzDag) AddMany(ctx context.Context, ns []ipld.Node) error {
	for _, n := range ns {
		if err := d.Add(ctx, n); err != nil {
			return err
		}
	}
	return nil
}

func (d *zzDag) Remove(ctx context.Context, c cid.Cid) error        { return nil }
func (d *zzDag) RemoveMany(ctx context.Context, cs []cid.Cid) error { return nil }

func zzSplitter(size int64) chunker.SplitterGen {
	return func(r io.Reader) chunker.Splitter { return chunker.NewSizeSplitter(r, size) }
}

// zzBuildFile lays data out as a trickle DAG (the layout the modifier maintains).
func zzBuildFile(ds ipld.DAGService, data []byte, chunk int64, maxLinks int, prefix cid.Prefix, rawLeaves bool) ipld.Node {
	dbp := help.DagBuilderParams{Dagserv: ds, Maxlinks: maxLinks, CidBuilder: prefix, RawLeaves: rawLeaves}
	db, err := dbp.New(chunker.NewSizeSplitter(bytes.NewReader(data), chunk))
	if err != nil {
		panic(err)
	}
	nd, err := trickle.Layout(db)
	if err != nil {
		panic(err)
	}
	return nd
}

// zzReadAll reads the whole file below nd through the UnixFS reader.
func zzReadAll(ds ipld.DAGService, nd ipld.Node) ([]byte, error) {
	r, err := uio.NewDagReader(context.Background(), nd, ds)
	if err != nil {
		return nil, err
	}
	return io.ReadAll(r)
}
