package mod

import (
	"bytes"
	"context"
	"encoding/binary"
	"errors"
	"hash"
	"io"

	"github.com/ipfs/boxo/internal/verifrt"
	mdag "github.com/ipfs/boxo/ipld/merkledag"
	ft "github.com/ipfs/boxo/ipld/unixfs"
	pb "github.com/ipfs/boxo/ipld/unixfs/pb"
	cid "github.com/ipfs/go-cid"
	ipld "github.com/ipfs/go-ipld-format"
	mh "github.com/multiformats/go-multihash"
	mhcore "github.com/multiformats/go-multihash/core"
	"google.golang.org/protobuf/proto"
)

// ---------------------------------------------------------------------------------------------------------
// T3: bounded operation sequences on a small real file. Everything below the modifier is the real code
// (trickle layout/append, UnixFS nodes, dag-pb encoding through go-codec-dagpb, the UnixFS reader); stubbed
// under the engine are only the hash (uninterpreted, collision free), protobuf-go's Marshal/Unmarshal of the
// UnixFS Data message (a wire codec written from unixfs.proto) and the block store (zzDag).
// ---------------------------------------------------------------------------------------------------------

// ---- multihash.Sum -------------------------------------------------------------------------------------
// zzIntern numbers the distinct concrete hash inputs seen on a path.
var zzIntern []string

// Concrete input: an interned digest (01 | index), i.e. one particular collision-free deterministic function,
// so that fully concrete DAG surgery costs no solver work. Symbolic input: uninterpreted collision-free
// function whose digests start with FE (never equal to an interned one).
func zzMhSum(data []byte, code uint64, length int) (mh.Multihash, error) {
	if code == mh.IDENTITY {
		return mh.Encode(data, mh.IDENTITY)
	}
	if length < 0 {
		length = 32
	}
	if verifrt.IsConcrete(data) {
		key := string(data) + string(rune(code))
		idx := -1
		for i, k := range zzIntern {
			if k == key {
				idx = i
			}
		}
		if idx < 0 {
			idx = len(zzIntern)
			zzIntern = append(zzIntern, key)
		}
		d := make([]byte, length)
		d[0] = 0x01
		binary.BigEndian.PutUint32(d[1:], uint32(idx))
		return mh.Encode(d, code)
	}
	algo := "crypto:mh-sha2-256"
	if code != mh.SHA2_256 {
		algo = "crypto:mh-other"
	}
	d := verifrt.HashUF(algo, data, length)
	verifrt.Assume(d[0] == 0xFE)
	return mh.Encode(d, code)
}

// zzGetHasher stands in for multihash/core.GetVariableHasher (the registry is filled from crypto/* constructors
// which the engine does not run); only the error is used by merkledag.checkHasher.
func zzGetHasher(code uint64, sizeHint int) (hash.Hash, error) {
	switch code {
	case mh.IDENTITY, mh.SHA2_256, mh.SHA2_512, mh.SHA1:
		return nil, nil
	}
	return nil, mhcore.ErrSumNotSupported
}

// ---- protobuf model of unixfs pb.Data (engine only; natively protobuf-go runs) ----------------------------
func zzAppendVarint(b []byte, v uint64) []byte {
	for v >= 0x80 {
		b = append(b, byte(v)|0x80)
		v >>= 7
	}
	return append(b, byte(v))
}

func zzEncTimestamp(t *pb.IPFSTimestamp) ([]byte, error) {
	var b []byte
	if t.Seconds == nil {
		return nil, errors.New("required field seconds not set")
	}
	b = append(b, 0x08)
	b = zzAppendVarint(b, uint64(*t.Seconds))
	if t.Nanos != nil {
		b = append(b, 0x15)
		b = binary.LittleEndian.AppendUint32(b, *t.Nanos)
	}
	return b, nil
}

func zzEncData(d *pb.Data) ([]byte, error) {
	var b []byte
	if d.Type == nil {
		return nil, errors.New("required field Type not set")
	}
	b = append(b, 0x08)
	b = zzAppendVarint(b, uint64(int64(int32(*d.Type))))
	if d.Data != nil {
		b = append(b, 0x12)
		b = zzAppendVarint(b, uint64(len(d.Data)))
		b = append(b, d.Data...)
	}
	if d.Filesize != nil {
		b = append(b, 0x18)
		b = zzAppendVarint(b, *d.Filesize)
	}
	for _, s := range d.Blocksizes {
		b = append(b, 0x20)
		b = zzAppendVarint(b, s)
	}
	if d.HashType != nil {
		b = append(b, 0x28)
		b = zzAppendVarint(b, *d.HashType)
	}
	if d.Fanout != nil {
		b = append(b, 0x30)
		b = zzAppendVarint(b, *d.Fanout)
	}
	if d.Mode != nil {
		b = append(b, 0x38)
		b = zzAppendVarint(b, uint64(*d.Mode))
	}
	if d.Mtime != nil {
		tb, err := zzEncTimestamp(d.Mtime)
		if err != nil {
			return nil, err
		}
		b = append(b, 0x42)
		b = zzAppendVarint(b, uint64(len(tb)))
		b = append(b, tb...)
	}
	return b, nil
}

func zzPbMarshal(m proto.Message) ([]byte, error) {
	switch x := m.(type) {
	case *pb.Data:
		return zzEncData(x)
	case *pb.IPFSTimestamp:
		return zzEncTimestamp(x)
	}
	panic("zzPbMarshal: unmodelled message type")
}

var errZzTrunc = errors.New("proto: truncated")

func zzReadVarint(b []byte, i int) (uint64, int, error) {
	var v uint64
	for shift := uint(0); shift < 70; shift += 7 {
		if i >= len(b) {
			return 0, i, errZzTrunc
		}
		c := b[i]
		i++
		v |= uint64(c&0x7f) << shift
		if c < 0x80 {
			return v, i, nil
		}
	}
	return 0, i, errors.New("proto: varint overflow")
}

func zzSkip(b []byte, i int, wt uint64) (int, error) {
	switch wt {
	case 0:
		_, j, err := zzReadVarint(b, i)
		return j, err
	case 1:
		if i+8 > len(b) {
			return i, errZzTrunc
		}
		return i + 8, nil
	case 2:
		l, j, err := zzReadVarint(b, i)
		if err != nil {
			return j, err
		}
		if uint64(len(b)-j) < l {
			return j, errZzTrunc
		}
		return j + int(l), nil
	case 5:
		if i+4 > len(b) {
			return i, errZzTrunc
		}
		return i + 4, nil
	}
	return i, errors.New("proto: bad wire type")
}

func zzDecTimestamp(b []byte, t *pb.IPFSTimestamp) error {
	t.Seconds, t.Nanos = nil, nil
	i := 0
	for i < len(b) {
		tag, j, err := zzReadVarint(b, i)
		if err != nil {
			return err
		}
		i = j
		switch tag {
		case 0x08:
			v, j, err := zzReadVarint(b, i)
			if err != nil {
				return err
			}
			i = j
			s := int64(v)
			t.Seconds = &s
		case 0x15:
			if i+4 > len(b) {
				return errZzTrunc
			}
			n := binary.LittleEndian.Uint32(b[i:])
			i += 4
			t.Nanos = &n
		default:
			if i, err = zzSkip(b, i, tag&7); err != nil {
				return err
			}
		}
	}
	if t.Seconds == nil {
		return errors.New("proto: required field seconds not set")
	}
	return nil
}

func zzDecData(b []byte, d *pb.Data) error {
	d.Type, d.Data, d.Filesize, d.Blocksizes, d.HashType, d.Fanout, d.Mode, d.Mtime = nil, nil, nil, nil, nil, nil, nil, nil
	i := 0
	for i < len(b) {
		tag, j, err := zzReadVarint(b, i)
		if err != nil {
			return err
		}
		i = j
		switch tag {
		case 0x08, 0x18, 0x20, 0x28, 0x30, 0x38:
			v, j, err := zzReadVarint(b, i)
			if err != nil {
				return err
			}
			i = j
			switch tag {
			case 0x08:
				t := pb.Data_DataType(int32(v))
				d.Type = &t
			case 0x18:
				d.Filesize = &v
			case 0x20:
				d.Blocksizes = append(d.Blocksizes, v)
			case 0x28:
				d.HashType = &v
			case 0x30:
				d.Fanout = &v
			case 0x38:
				m := uint32(v)
				d.Mode = &m
			}
		case 0x12, 0x42:
			l, j, err := zzReadVarint(b, i)
			if err != nil {
				return err
			}
			i = j
			if uint64(len(b)-i) < l {
				return errZzTrunc
			}
			body := b[i : i+int(l)]
			i += int(l)
			if tag == 0x12 {
				d.Data = append([]byte{}, body...)
			} else {
				if d.Mtime == nil {
					d.Mtime = &pb.IPFSTimestamp{}
				}
				if err := zzDecTimestamp(body, d.Mtime); err != nil {
					return err
				}
			}
		default:
			if i, err = zzSkip(b, i, tag&7); err != nil {
				return err
			}
		}
	}
	if d.Type == nil {
		return errors.New("proto: required field Type not set")
	}
	return nil
}

func zzPbUnmarshal(b []byte, m proto.Message) error {
	switch x := m.(type) {
	case *pb.Data:
		return zzDecData(b, x)
	case *pb.IPFSTimestamp:
		return zzDecTimestamp(b, x)
	}
	panic("zzPbUnmarshal: unmodelled message type")
}

// ---- byte-array file model -------------------------------------------------------------------------------

type zzFile struct {
	data []byte
	pos  int
}

func (f *zzFile) extend(n int) {
	for len(f.data) < n {
		f.data = append(f.data, 0)
	}
}

func (f *zzFile) writeAt(b []byte, off int) {
	f.extend(off)
	for i, c := range b {
		if off+i < len(f.data) {
			f.data[off+i] = c
		} else {
			f.data = append(f.data, c)
		}
	}
}

func zzSetup(shape, n0 int, fillMode int, prefix cid.Prefix, rawLeaves bool, chunk int64, width int) (*DagModifier, *zzDag, *zzFile) {
	var data []byte
	switch fillMode {
	case 0: // distinct concrete bytes
		for i := 0; i < n0; i++ {
			data = append(data, byte(0x11*(i+1)))
		}
	case 1: // all zero (maximal de-duplication, also against sparse expansion)
		data = make([]byte, n0)
	default:
		data = verifrt.NondetBytes("init", n0)
	}
	ds := &zzDag{}
	var nd ipld.Node
	switch shape {
	case 1: // a single dag-pb node holding the bytes inline (what a one-chunk import with protobuf leaves gives)
		pn := mdag.NodeWithData(ft.FilePBData(data, uint64(len(data))))
		pn.SetCidBuilder(prefix)
		nd = pn
		ds.Add(context.Background(), nd)
	case 2: // a single raw node (one-chunk import with raw leaves)
		rn, err := mdag.NewRawNodeWPrefix(data, cid.Prefix{Version: 1, Codec: cid.Raw, MhType: prefix.MhType, MhLength: prefix.MhLength})
		if err != nil {
			panic(err)
		}
		nd = rn
		ds.Add(context.Background(), nd)
	default:
		nd = zzBuildFile(ds, data, chunk, width, prefix, rawLeaves)
	}
	dm, err := NewDagModifier(context.Background(), nd, ds, zzSplitter(chunk))
	if err != nil {
		panic(err)
	}
	dm.MaxLinks = width
	dm.RawLeaves = rawLeaves
	return dm, ds, &zzFile{data: append([]byte(nil), data...)}
}

func zzOpBytes(fillMode, n, step int) []byte {
	switch fillMode {
	case 0:
		b := make([]byte, n)
		for i := range b {
			b[i] = byte(0xA0 + 0x10*step + i)
		}
		return b
	case 1:
		return make([]byte, n)
	}
	return verifrt.NondetBytes("w", n)
}

// zzContent reads the whole file behind GetNode through the UnixFS reader.
func zzContent(dm *DagModifier, ds *zzDag) ([]byte, error) {
	nd, err := dm.GetNode()
	if err != nil {
		return nil, err
	}
	return zzReadAll(ds, nd)
}

// zzPick chooses an operation argument: from the full list, or from a small list of representative values
// when the tier parameter ARGS is 0.
func zzPick(name string, full, small []int) int {
	l := full
	if verifrt.Param("ARGS", 1) == 0 {
		l = small
	}
	return l[verifrt.NondetRange(name, 0, len(l)-1)]
}

func zzSpan(lo, hi int) []int {
	var r []int
	for i := lo; i <= hi; i++ {
		r = append(r, i)
	}
	return r
}

var zzOpNames = []string{"Write", "WriteAt", "Seek", "Read", "Truncate", "Size", "Sync", "GetNode"}

// HarnessC10Ops: K operations on an initial file of N0 bytes, compared step by step with the model; the DAG
// returned by GetNode at the end reads back as the model's content.
func HarnessC10Ops() { zzOps() }

// HarnessC10OpsDeep: the same with longer sequences over representative arguments (tier parameters differ).
func HarnessC10OpsDeep() { zzOps() }

// HarnessC10OpsSym: the same with symbolic file and write bytes (hash of symbolic input = uninterpreted function).
func HarnessC10OpsSym() { zzOps() }

// HarnessC10OpsShapes: the same on single-node starting files.
func HarnessC10OpsShapes() { zzOps() }

func zzOps() {
	zzIntern = nil
	zzK.on = false
	K := verifrt.Param("K", 2)
	chunk := int64(verifrt.Param("CHUNK", 2))
	width := verifrt.Param("WIDTH", 2)
	n0 := verifrt.NondetRange("n0", verifrt.Param("N0LO", 0), verifrt.Param("N0", 3))
	fillMode := verifrt.NondetRange("fill", verifrt.Param("FILLLO", 0), verifrt.Param("FILLHI", 0))
	cfg := verifrt.NondetRange("cfg", verifrt.Param("CFGLO", 0), verifrt.Param("CFGHI", 1))
	if verifrt.Param("PAIR", 0) == 1 && cfg != fillMode {
		// paired mode: configuration i goes with fill mode i only
		verifrt.Assume(false)
	}
	prefix, raw := mdag.V0CidPrefix(), false
	if cfg == 1 {
		prefix, raw = mdag.V1CidPrefix(), true
	}
	// starting file: 0 trickle DAG, 1 single dag-pb node with inline data, 2 single raw node (raw-leaf configuration only)
	shape := verifrt.NondetRange("shape", verifrt.Param("SHAPELO", 0), verifrt.Param("SHAPEHI", 0))
	if shape == 2 && !raw {
		verifrt.Assume(false)
	}
	dm, ds, f := zzSetup(shape, n0, fillMode, prefix, raw, chunk, width)

	// How the current offset was last established. A Write (or a WriteAt at the current offset) issued while
	// the offset stems from Read is checked right away for landing at that offset (white box: the pending
	// buffer must end at the current offset); this one failure class has its own assertion id and ends the
	// path there.
	posBy := "init"
	id := func(what string) string { return "C10.ops-" + what }
	bufferAtOffset := func() bool {
		return dm.wrBuf == nil || dm.writeStart+uint64(dm.wrBuf.Len()) == dm.curWrOff
	}

	for step := 0; step < K; step++ {
		op := zzOpNames[verifrt.NondetRange("op", verifrt.Param("OPLO", 0), verifrt.Param("OPHI", len(zzOpNames)-1))]
		switch op {
		case "Write":
			b := zzOpBytes(fillMode, verifrt.NondetRange("n", 1, 2), step)
			n, err := dm.Write(b)
			verifrt.Assert(id("write-return"), err == nil && n == len(b))
			if posBy == "Read" {
				verifrt.Assert("C10.ops-write-after-read-position", bufferAtOffset())
			}
			f.writeAt(b, f.pos)
			f.pos += len(b)
			posBy = "Write"
		case "WriteAt":
			b := zzOpBytes(fillMode, zzPick("n", []int{1, 2}, []int{1}), step)
			off := zzPick("off", zzSpan(0, len(f.data)+2), []int{0, max(len(f.data)-1, 0), len(f.data) + 1})
			n, err := dm.WriteAt(b, int64(off))
			verifrt.Assert(id("writeat-return"), err == nil && n == len(b))
			if posBy == "Read" {
				verifrt.Assert("C10.ops-write-after-read-position", bufferAtOffset())
			}
			f.writeAt(b, off)
			// offset after WriteAt: unchanged (pwrite) or just past the written bytes (seek+write)
			after := int(dm.curWrOff)
			verifrt.Assert(id("writeat-offset-after"), after == f.pos || after == off+len(b))
			f.pos = after
			posBy = "WriteAt"
		case "Seek":
			whence := zzPick("whence", []int{0, 1, 2}, []int{0, 2})
			target := zzPick("target", zzSpan(-1, len(f.data)+2), []int{1, len(f.data) + 1})
			base := 0
			switch whence {
			case io.SeekCurrent:
				base = f.pos
			case io.SeekEnd:
				base = len(f.data)
			}
			got, err := dm.Seek(int64(target-base), whence)
			if target < 0 {
				verifrt.Assert(id("seek-negative-rejected"), err != nil)
			} else {
				verifrt.Assert(id("seek-result"), err == nil && got == int64(target))
				posBy = "Seek"
				f.pos = target
				f.extend(target) // seeking past the end extends the file with zeros at once (accepted reading)
			}
		case "Read":
			buf := make([]byte, zzPick("n", []int{1, 2, 3}, []int{1, 3}))
			n, err := dm.Read(buf)
			want := 0
			if f.pos < len(f.data) {
				want = len(f.data) - f.pos
				if want > len(buf) {
					want = len(buf)
				}
			}
			verifrt.Assert(id("read-count"), n == want)
			verifrt.Assert(id("read-error"), err == nil || (err == io.EOF && n < len(buf)))
			verifrt.Assert(id("read-eof"), want > 0 || err == io.EOF)
			if n == want {
				verifrt.Assert(id("read-bytes"), bytes.Equal(buf[:n], f.data[f.pos:f.pos+n]))
				f.pos += n
			}
			posBy = "Read"
		case "Truncate":
			sz := zzPick("size", zzSpan(0, len(f.data)+2), []int{0, 1, len(f.data) + 1})
			err := dm.Truncate(int64(sz))
			verifrt.Assert(id("truncate-ok"), err == nil)
			if sz <= len(f.data) {
				f.data = f.data[:sz]
			} else {
				f.extend(sz)
			}
		case "Size":
			sz, err := dm.Size()
			verifrt.Assert(id("size"), err == nil && sz == int64(len(f.data)))
		case "Sync":
			verifrt.Assert(id("sync-ok"), dm.Sync() == nil)
		case "GetNode":
			c, err := zzContent(dm, ds)
			verifrt.Assert(id("getnode-ok"), err == nil)
			verifrt.Assert(id("getnode-content"), bytes.Equal(c, f.data))
		}
	}
	sz, err := dm.Size()
	verifrt.Observe("size", sz)
	verifrt.Assert(id("final-size"), err == nil && sz == int64(len(f.data)))
	c, err := zzContent(dm, ds)
	verifrt.Assert(id("final-getnode-ok"), err == nil)
	verifrt.Observe("content", c)
	verifrt.Assert(id("final-content"), bytes.Equal(c, f.data))
	verifrt.Reach("end")
}

var _ ipld.Node
