package peering

import (
	"context"
	"errors"
	"runtime"
	"sync"
	"time"

	"github.com/ipfs/boxo/internal/verifrt"
	"github.com/libp2p/go-libp2p/core/connmgr"
	"github.com/libp2p/go-libp2p/core/host"
	"github.com/libp2p/go-libp2p/core/network"
	"github.com/libp2p/go-libp2p/core/peer"
)

// ---- fake libp2p host -------------------------------------------------------------------------------------

type zzvConn struct {
	network.Conn
	p peer.ID
}

func (c *zzvConn) RemotePeer() peer.ID { return c.p }

type zzvNet struct {
	network.Network
	h *zzvHost
}

func (n *zzvNet) Notify(nn network.Notifiee) {
	n.h.mu.Lock()
	defer n.h.mu.Unlock()
	n.h.notifees = append(n.h.notifees, nn)
}

func (n *zzvNet) StopNotify(nn network.Notifiee) {
	n.h.mu.Lock()
	defer n.h.mu.Unlock()
	for i, x := range n.h.notifees {
		if x == nn {
			n.h.notifees = append(n.h.notifees[:i:i], n.h.notifees[i+1:]...)
			return
		}
	}
}

func (n *zzvNet) Connectedness(p peer.ID) network.Connectedness {
	n.h.mu.Lock()
	defer n.h.mu.Unlock()
	if n.h.connected {
		return network.Connected
	}
	return network.NotConnected
}

// zzvHost: one remote peer whose connectedness the harness controls; Connect counts dial attempts, fails
// immediately on a cancelled context (like the real host) and otherwise succeeds or fails symbolically.
type zzvHost struct {
	host.Host
	net *zzvNet
	pid peer.ID

	mu             zzvMu
	connected      bool
	notifees       []network.Notifiee
	dials          int
	dialsDone      int
	dialsCancelled int

	// pacing of consecutive failed dials (see Connect)
	ph          *peerHandler
	epoch       int // bumped by every connectivity change
	lastFailEnd time.Time
	lastFailEp  int
	haveFail    bool
	earlyRedial bool
}

// zzvMu is a real mutex natively; under the engine harness code between two synchronisation points of the
// code under test runs atomically, so the fake host adds no scheduling points of its own.
type zzvMu struct{ m sync.Mutex }

func (m *zzvMu) Lock() {
	if !verifrt.Symbolic() {
		m.m.Lock()
	}
}

func (m *zzvMu) Unlock() {
	if !verifrt.Symbolic() {
		m.m.Unlock()
	}
}

func zzvNewHost(pid peer.ID) *zzvHost {
	h := &zzvHost{pid: pid}
	h.net = &zzvNet{h: h}
	return h
}

func (h *zzvHost) Network() network.Network         { return h.net }
func (h *zzvHost) ConnManager() connmgr.ConnManager { return connmgr.NullConnMgr{} }

func (h *zzvHost) Connect(ctx context.Context, pi peer.AddrInfo) error {
	defer func() {
		h.mu.Lock()
		h.dialsDone++
		h.mu.Unlock()
	}()
	h.mu.Lock()
	h.dials++
	if ctx.Err() != nil {
		h.dialsCancelled++
		h.mu.Unlock()
		return ctx.Err()
	}
	// Pacing: a dial that directly follows a failed dial (no connectivity change in between) must not start
	// before the back-off the handler drew for that failure has elapsed (timers never fire early; 10% slack).
	if h.haveFail && h.lastFailEp == h.epoch && h.ph != nil {
		h.ph.mu.Lock()
		want := h.ph.nextDelay
		h.ph.mu.Unlock()
		if time.Since(h.lastFailEnd) < want-want/10 {
			h.earlyRedial = true
		}
	}
	h.haveFail = false
	h.mu.Unlock()
	// a dial may take a while to fail (timeouts on black-holed addresses)
	if verifrt.NondetBool("dialSlow") {
		if verifrt.Symbolic() {
			time.Sleep(30 * time.Second)
		} else {
			time.Sleep(1500 * time.Millisecond)
		}
	}
	if !verifrt.NondetBool("dialOk") {
		h.mu.Lock()
		h.haveFail, h.lastFailEnd, h.lastFailEp = true, time.Now(), h.epoch
		h.mu.Unlock()
		return errors.New("dial failed")
	}
	h.setConnected(true)
	return nil
}

// setConnected flips the connection state and delivers the notification to the registered notifees the way
// the swarm does (synchronously, from the caller's goroutine).
func (h *zzvHost) setConnected(c bool) {
	h.mu.Lock()
	h.connected = c
	h.epoch++
	ns := append([]network.Notifiee(nil), h.notifees...)
	h.mu.Unlock()
	conn := &zzvConn{p: h.pid}
	for _, n := range ns {
		if c {
			n.Connected(h.net, conn)
		} else {
			n.Disconnected(h.net, conn)
		}
	}
}

func (h *zzvHost) dialCount() int {
	h.mu.Lock()
	defer h.mu.Unlock()
	return h.dials
}

func (h *zzvHost) doneCount() int {
	h.mu.Lock()
	defer h.mu.Unlock()
	return h.dialsDone
}

func (h *zzvHost) redialTooEarly() bool {
	h.mu.Lock()
	defer h.mu.Unlock()
	return h.earlyRedial
}

func (h *zzvHost) isConnected() bool {
	h.mu.Lock()
	defer h.mu.Unlock()
	return h.connected
}

// ---- time and scheduling helpers -------------------------------------------------------------------------
//
// Under the engine time is virtual (timers fire when every goroutine is blocked) and the schedule is the
// engine's. Natively the harness pins GOMAXPROCS to 1, which gives run-until-block scheduling (a goroutine
// started by a notification stays in flight until the main goroutine yields), and scales the initial back-off
// from 5 s to 200 ms so that a replay takes seconds, not minutes. The logic under test does not look at the
// magnitude of the delay.

const zzvNativeDelay = 200 * time.Millisecond

func zzvScale(ph *peerHandler) {
	if verifrt.Symbolic() || ph == nil {
		return
	}
	ph.mu.Lock()
	if ph.nextDelay == initialDelay {
		ph.nextDelay = zzvNativeDelay
	}
	ph.mu.Unlock()
}

func zzvDrain() {
	if verifrt.Symbolic() {
		verifrt.Drain()
		return
	}
	for i := 0; i < 50; i++ {
		runtime.Gosched()
	}
}

// zzvAwaitDial waits until the next dial attempt has started (done=false) or finished (done=true): at most
// one maximal back-off period plus the duration of a slow dial.
func zzvAwaitDial(h *zzvHost, done bool) bool {
	count := h.dialCount
	if done {
		count = h.doneCount
	}
	before := count()
	if verifrt.Symbolic() {
		for i := 0; i < 12 && count() == before; i++ {
			time.Sleep(time.Minute)
		}
	} else {
		for i := 0; i < 15000 && count() == before; i++ {
			time.Sleep(time.Millisecond)
		}
	}
	zzvDrain()
	return count() > before
}

// zzvQuietPeriod lets two and a half maximal back-off periods pass.
func zzvQuietPeriod() {
	if verifrt.Symbolic() {
		time.Sleep(25 * time.Minute)
	} else {
		time.Sleep(3 * time.Second)
	}
	zzvDrain()
}

// Under the engine the random part of the back-off makes the timer delay symbolic; the timer model needs a
// concrete instant. time.AfterFunc / (*time.Timer).Reset are bound to these wrappers, which check the
// symbolic delay against the property's range and arm the timer with the representative 10 min (there is a
// single reconnect timer, so only its order relative to the harness's own sleeps matters).
var zzvLifecycleActive bool

func zzvAfterFunc(d time.Duration, f func()) *time.Timer {
	if !zzvLifecycleActive {
		return time.AfterFunc(d, f)
	}
	verifrt.Assert("C46.armed-delay-in-range", d > 0 && d <= 10*time.Minute)
	return time.AfterFunc(10*time.Minute, f)
}

func zzvTimerReset(t *time.Timer, d time.Duration) bool {
	if !zzvLifecycleActive {
		return t.Reset(d)
	}
	verifrt.Assert("C46.rearmed-delay-in-range", d > 0 && d <= 10*time.Minute)
	return t.Reset(10 * time.Minute)
}

// ---- the scenario ----------------------------------------------------------------------------------------

func zzvHandler(ps *PeeringService, pid peer.ID) *peerHandler {
	ps.mu.RLock()
	defer ps.mu.RUnlock()
	return ps.peers[pid]
}

func zzvTimerArmed(ph *peerHandler) (armed bool, delay time.Duration) {
	ph.mu.Lock()
	defer ph.mu.Unlock()
	return ph.reconnectTimer != nil, ph.nextDelay
}

// zzvCheckRunning: at a quiescent point while the service runs and the peer is registered, a disconnected
// peer has a reconnect scheduled.
func zzvCheckRunning(h *zzvHost, ph *peerHandler) {
	verifrt.Assert("C46.redial-not-before-backoff-elapsed", !h.redialTooEarly())
	if h.isConnected() {
		return
	}
	armed, delay := zzvTimerArmed(ph)
	verifrt.Assert("C46.disconnected-peer-has-reconnect-scheduled", armed)
	if verifrt.Symbolic() {
		verifrt.Assert("C46.backoff-state-in-range", delay > 0 && delay <= 10*time.Minute)
	}
}

func zzvLifecycle(explicitDrains bool) {
	if !verifrt.Symbolic() {
		defer runtime.GOMAXPROCS(runtime.GOMAXPROCS(1))
	}
	zzvLifecycleActive = true
	defer func() { zzvLifecycleActive = false }()
	E := verifrt.Param("E", 2)
	pid := peer.ID("peerA")
	info := peer.AddrInfo{ID: pid}
	h := zzvNewHost(pid)
	h.connected = verifrt.NondetBool("initiallyConnected")
	ps := NewPeeringService(h)
	addFirst := verifrt.NondetRange("addBeforeStart", 0, 1) == 1
	if addFirst {
		ps.AddPeer(info)
		zzvScale(zzvHandler(ps, pid))
	}
	verifrt.Assert("C46.start-ok", ps.Start() == nil)
	if !addFirst {
		ps.AddPeer(info)
		zzvScale(zzvHandler(ps, pid))
	}
	ph := zzvHandler(ps, pid)
	verifrt.Assert("C46.handler-registered", ph != nil)
	h.mu.Lock()
	h.ph = ph
	h.mu.Unlock()

	ne := verifrt.NondetRange("events", 0, E)
	for i := 0; i < ne; i++ {
		switch verifrt.NondetRange("ev", 0, 3+verifrt.Param("INFLIGHT", 0)) {
		case 0: // the connection drops; the notification goroutine stays in flight
			h.setConnected(false)
		case 1: // inbound connection
			h.setConnected(true)
		case 2: // quiescence, then the scheduled reconnect (if one is due) happens
			zzvDrain()
			zzvScale(ph)
			zzvCheckRunning(h, ph)
			if !h.isConnected() {
				verifrt.Assert("C46.scheduled-reconnect-fires-within-10min", zzvAwaitDial(h, true))
				zzvScale(ph)
				zzvCheckRunning(h, ph)
			}
		case 4: // wait until a dial has started: with a slow dial the following events race with it
			zzvDrain()
			zzvScale(ph)
			if !h.isConnected() && h.dialCount() == h.doneCount() { // no dial in flight already
				verifrt.Assert("C46.scheduled-reconnect-starts-within-10min", zzvAwaitDial(h, false))
			}
		case 3: // quiescence only
			if explicitDrains {
				zzvDrain()
				zzvScale(ph)
				zzvCheckRunning(h, ph)
			} else {
				verifrt.Yield()
			}
		}
	}

	term := verifrt.NondetRange("term", 0, 1)
	if term == 0 {
		ps.Stop()
		verifrt.Assert("C46.state-stopped", ps.GetState() == StateStopped)
	} else {
		ps.RemovePeer(pid)
		verifrt.Assert("C46.peer-removed", zzvHandler(ps, pid) == nil)
	}
	// a notification that arrives after the call returned (the swarm may still be delivering)
	if verifrt.NondetBool("lateNotification") {
		h.setConnected(false)
	}
	zzvDrain()
	d0 := h.dialCount()
	verifrt.Observe("term", term)
	zzvQuietPeriod()
	// the property's observable first: no dial attempt after stop/remove returned and in-flight work drained
	verifrt.Assert("C46.no-dial-after-stop-or-remove", h.dialCount() == d0)
	verifrt.Assert("C46.redial-not-before-backoff-elapsed", !h.redialTooEarly())
	armed, _ := zzvTimerArmed(ph)
	verifrt.Assert("C46.no-reconnect-timer-after-stop-or-remove", !armed)
	verifrt.Reach("end")
}

// HarnessC46Lifecycle: canonical (run-until-block) schedule with explicit quiescence points chosen by the
// script; every counterexample is deterministic natively (GOMAXPROCS=1).
func HarnessC46Lifecycle() { zzvLifecycle(true) }

// HarnessC46LifecycleExplore: the same scenario under the engine's exploring scheduler (pre-emption at every
// synchronisation point, bounded number of pre-emptions).
func HarnessC46LifecycleExplore() { zzvLifecycle(false) }
