package peering

import (
	"time"

	"github.com/ipfs/boxo/internal/verifrt"
)

// HarnessC46Backoff is the inductive step for the back-off: from ANY handler state with
// 0 < nextDelay <= maxBackoff (true initially: initialDelay, and re-established by stopIfConnected) and any
// random draws, nextBackoff returns a delay in (0, 10 min], keeps the invariant, does not overflow and never
// hands rand.Int64N a non-positive bound (that panics). One step => every sequence of failures of any length.
func HarnessC46Backoff() {
	d := verifrt.NondetI64("d")
	verifrt.Assume(d > 0)
	verifrt.Assume(d <= int64(10*time.Minute))
	ph := &peerHandler{nextDelay: time.Duration(d)}
	r := ph.nextBackoff()
	verifrt.Assert("C46.backoff-positive", r > 0)
	verifrt.Assert("C46.backoff-le-10min", r <= 10*time.Minute)
	verifrt.Assert("C46.backoff-invariant", ph.nextDelay > 0 && ph.nextDelay <= 10*time.Minute)
	verifrt.Assert("C46.backoff-returns-state", ph.nextDelay == r)
	// a failure never makes the next attempt come sooner, except for the jitter below the cap
	verifrt.Assert("C46.backoff-no-shrink", int64(r) >= d || r > 9*time.Minute)
	verifrt.Reach("end")
}

// HarnessC46BackoffBase: the states the service itself creates satisfy the invariant.
func HarnessC46BackoffBase() {
	verifrt.Assert("C46.initial-delay-in-invariant", initialDelay > 0 && initialDelay <= maxBackoff)
	verifrt.Assert("C46.max-is-10min", maxBackoff == 10*time.Minute)
	ph := &peerHandler{nextDelay: initialDelay}
	r := ph.nextBackoff()
	verifrt.Assert("C46.first-backoff-range", r >= initialDelay+initialDelay/2 && r < initialDelay*5/2)
	verifrt.Reach("end")
}
