package files

import (
	"math"
	"mime/multipart"
	"net/textproto"
	"os"
	"path"
	"time"

	"github.com/ipfs/boxo/internal/verifrt"
)

// zzvMeta is a Node that only carries metadata (what addContentDisposition reads from the current file).
type zzvMeta struct {
	mode  os.FileMode
	mtime time.Time
}

func (z *zzvMeta) Close() error         { return nil }
func (z *zzvMeta) Mode() os.FileMode    { return z.mode }
func (z *zzvMeta) ModTime() time.Time   { return z.mtime }
func (z *zzvMeta) Size() (int64, error) { return 0, nil }

// zzvHeaderRoundTrip writes the part header the way MultiFileReader.Read does for one entry and parses it the
// way multipartWalker.nextFile does (fileName + fileInfo on the part).
func zzvHeaderRoundTrip(form bool, node Node, filename string) (string, os.FileInfo, string) {
	mfr := &MultiFileReader{form: form, currentFile: node}
	h := make(textproto.MIMEHeader)
	mfr.addContentDisposition(h, filename)
	part := &multipart.Part{Header: h}
	name := fileName(part)
	return name, fileInfo(name, part), h.Get(contentDispositionHeader)
}

// zzvCheckMeta asserts the metadata part of the round trip for one part.
func zzvCheckMeta(node *zzvMeta, hasMtime bool, secs, ns int64) {
	name, fi, cd := zzvHeaderRoundTrip(true, node, "a")
	verifrt.Observe("cd", cd)
	verifrt.Assert("C39.name-fixed", name == "/a")
	verifrt.Assert("C39.info-present", fi != nil)
	if fi == nil {
		verifrt.Reach("end")
		return
	}
	verifrt.Observe("mode", uint32(fi.Mode()))
	verifrt.Assert("C39.mode-roundtrip", fi.Mode() == node.mode)
	got := fi.ModTime()
	verifrt.Observe("zero", got.IsZero())
	if !hasMtime {
		verifrt.Assert("C39.unset-mtime-stays-unset", got.IsZero())
	} else {
		verifrt.Assert("C39.set-mtime-stays-set", !got.IsZero())
		verifrt.Assert("C39.mtime-seconds-roundtrip", got.Unix() == secs)
		verifrt.Assert("C39.mtime-nanoseconds-roundtrip", int64(got.Nanosecond()) == ns)
		verifrt.Assert("C39.mtime-equal", got.Equal(node.mtime))
	}
	verifrt.Reach("end")
}

// HarnessC39Mode: form mode, fixed name; the mode is symbolic (0 = unset .. 07777), next to an mtime that is
// unset / whole seconds / seconds+nanoseconds. Mode and mtime come back as written, unset staying unset.
func HarnessC39Mode() {
	mode := verifrt.NondetU32("mode")
	verifrt.Assume(mode <= 0o7777)
	node := &zzvMeta{mode: os.FileMode(mode)}
	k := verifrt.NondetRange("mtimeKind", 0, 2)
	var secs, ns int64
	if k >= 1 {
		secs = 12
		if k == 2 {
			ns = 34
		}
		node.mtime = time.Unix(secs, ns)
	}
	zzvCheckMeta(node, k >= 1, secs, ns)
}

// HarnessC39Mtime: form mode, fixed name; mode unset or 0644; mtime unset, or set with seconds symbolic in
// [-W, W] or one of a few concrete far-away instants (incl. the int64 extremes), nanoseconds absent, symbolic
// in [0, W] or one of a few concrete values up to 999999999.
func HarnessC39Mtime() {
	w := int64(verifrt.Param("W", 999))
	node := &zzvMeta{}
	if verifrt.NondetRange("hasMode", 0, 1) == 1 {
		node.mode = 0o644
	}
	hasMtime := verifrt.NondetRange("hasMtime", 0, 1) == 1
	var secs, ns int64
	if hasMtime {
		// decimal formatting of a symbolic full-width integer is nested 64-bit division, which the solver does
		// not finish: the far-away instants are concrete samples
		samples := []int64{1_000_000_000, 1_758_000_000, -2_000_000_000, 253_402_300_799, math.MaxInt64, math.MinInt64}
		if k := verifrt.NondetRange("secKind", 0, len(samples)); k == 0 {
			secs = verifrt.NondetI64("d")
			verifrt.Assume(secs >= -w && secs <= w)
		} else {
			secs = samples[k-1]
		}
		nsSamples := []int64{999_999_999, 1_000_000, 123_456_789}
		switch k := verifrt.NondetRange("nsKind", 0, 1+len(nsSamples)); k {
		case 0:
		case 1:
			ns = verifrt.NondetI64("ns")
			verifrt.Assume(ns >= 0 && ns <= w)
		default:
			ns = nsSamples[k-2]
		}
		node.mtime = time.Unix(secs, ns)
		verifrt.Assume(!node.mtime.IsZero()) // the zero instant *is* "unset"
	}
	zzvCheckMeta(node, hasMtime, secs, ns)
}

// HarnessC39Name: entry path text of 1..N bytes over an alphabet of reserved characters, both dispositions,
// with and without metadata parameters in front of it: the parsed name is the cleaned absolute form of what
// was written (for a plain component x: "/x"), and the metadata next to it is not disturbed.
func HarnessC39Name() {
	n := verifrt.NondetRange("n", 1, verifrt.Param("N", 3))
	p := verifrt.NondetBytes("p", n)
	for i := range p {
		verifrt.Assume(verifrt.OneOf(p[i], "a \"%/+;.\\=&?\x00\xc3\xa9\r\n"))
	}
	fn := string(p)
	variant := verifrt.NondetRange("variant", 0, 2) // 0 mixed, 1 form without metadata, 2 form with metadata
	form := variant >= 1
	node := &zzvMeta{}
	meta := variant == 2
	if meta {
		node.mode = 0o644
		node.mtime = time.Unix(12, 34)
	}
	name, fi, cd := zzvHeaderRoundTrip(form, node, fn)
	verifrt.Observe("cd", cd)
	verifrt.Observe("name", name)
	verifrt.Assert("C39.name-roundtrip", name == path.Clean("/"+fn))
	verifrt.Assert("C39.name-info-present", fi != nil)
	if fi != nil && form {
		verifrt.Assert("C39.name-mode-undisturbed", fi.Mode() == node.mode)
		verifrt.Assert("C39.name-mtime-undisturbed", fi.ModTime().Equal(node.mtime) && fi.ModTime().IsZero() == !meta)
		verifrt.Assert("C39.name-base", fi.Name() == path.Base(name))
	}
	verifrt.Reach("end")
}
