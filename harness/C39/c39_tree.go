package files

import (
	"bytes"
	"io"
	"mime/multipart"
	"net/textproto"
	"os"
	"time"

	"github.com/ipfs/boxo/internal/verifrt"
)

func zzvBoundary() string { return "zzvBoundaryZZV0123456789" }

// mime/multipart.readMIMEHeader is a body-less go:linkname alias of net/textproto's limited header reader;
// under the engine it is bound to the exported reader of the same package (same parser, default limits).
func zzvReadMIMEHeader(r *textproto.Reader, maxMemory, maxHeaders int64) (textproto.MIMEHeader, error) {
	return r.ReadMIMEHeader()
}

type zzvStat struct {
	mode  os.FileMode
	mtime time.Time
}

func (s *zzvStat) Name() string       { return "" }
func (s *zzvStat) Size() int64        { return 0 }
func (s *zzvStat) Mode() os.FileMode  { return s.mode }
func (s *zzvStat) ModTime() time.Time { return s.mtime }
func (s *zzvStat) IsDir() bool        { return false }
func (s *zzvStat) Sys() any           { return nil }

// zzvItem is one node of a walked tree, flattened in walk order.
type zzvItem struct {
	path    string
	kind    byte // 'd', 'f', 'l'
	payload string
	mode    os.FileMode
	mtime   time.Time
}

func zzvWalk(prefix string, d Directory, out *[]zzvItem) error {
	it := d.Entries()
	for it.Next() {
		p := prefix + "/" + it.Name()
		switch n := it.Node().(type) {
		case Directory:
			*out = append(*out, zzvItem{path: p, kind: 'd', mode: n.Mode(), mtime: n.ModTime()})
			if err := zzvWalk(p, n, out); err != nil {
				return err
			}
		case *Symlink:
			*out = append(*out, zzvItem{path: p, kind: 'l', payload: n.Target, mode: n.Mode(), mtime: n.ModTime()})
		case File:
			b, err := io.ReadAll(n)
			if err != nil {
				return err
			}
			*out = append(*out, zzvItem{path: p, kind: 'f', payload: string(b), mode: n.Mode(), mtime: n.ModTime()})
		}
	}
	return it.Err()
}

// HarnessC39Tree: a three-level tree (directory with metadata, nested directory, files with symbolic content,
// a symlink with a symbolic target, one entry name with a symbolic reserved character) is serialized by
// MultiFileReader (form or mixed), parsed by the real mime/multipart reader and NewFileFromPartReader, and walked:
// same paths in the same order, same types, contents and link targets; in form mode the same modes and
// modification times (unset staying unset).
func HarnessC39Tree() {
	form := verifrt.NondetRange("form", 0, 1) == 1
	c := verifrt.NondetU8("c")
	verifrt.Assume(verifrt.OneOf(c, "a %\"+;\\=&?\xc3"))
	nm := string([]byte{'n', c})
	content := verifrt.NondetBytes("content", verifrt.Param("CL", 2))
	for i := range content {
		verifrt.Assume(verifrt.OneOf(content[i], "x\r\n-"))
	}
	tgt := verifrt.NondetBytes("target", 1)
	verifrt.Assume(verifrt.OneOf(tgt[0], "t/.\r-"))
	mode := verifrt.NondetU32("mode")
	verifrt.Assume(mode <= 0o7777)
	hasMtime := verifrt.NondetRange("hasMtime", 0, 1) == 1
	st := &zzvStat{mode: os.FileMode(mode)}
	if hasMtime {
		st.mtime = time.Unix(1_700_000_000, 5)
	}
	fileStat := &zzvStat{mode: 0o640, mtime: time.Unix(77, 0)}

	tree := NewSliceDirectory([]DirEntry{
		FileEntry("d", NewSliceStatDirectory([]DirEntry{
			FileEntry(nm, NewReaderStatFile(bytes.NewReader(content), fileStat)),
			FileEntry("e", NewSliceDirectory([]DirEntry{
				FileEntry("deep", NewBytesFile([]byte("D"))),
			})),
			FileEntry("e.x", NewBytesFile([]byte("E"))),
		}, st)),
		// siblings whose names extend the name of the directory before them
		FileEntry("d2", NewSliceDirectory(nil)),
		FileEntry("d2x", NewBytesFile(nil)),
		FileEntry("l", NewSymlinkFile(string(tgt)+"x", time.Unix(99, 0))),
	})
	want := []zzvItem{
		{path: "/d", kind: 'd', mode: st.mode, mtime: st.mtime},
		{path: "/d/" + nm, kind: 'f', payload: string(content), mode: fileStat.mode, mtime: fileStat.mtime},
		{path: "/d/e", kind: 'd'},
		{path: "/d/e/deep", kind: 'f', payload: "D"},
		{path: "/d/e.x", kind: 'f', payload: "E"},
		{path: "/d2", kind: 'd'},
		{path: "/d2x", kind: 'f'},
		{path: "/l", kind: 'l', payload: string(tgt) + "x", mode: os.ModeSymlink | os.ModePerm, mtime: time.Unix(99, 0)},
	}

	mfr := NewMultiFileReader(tree, form, false)
	wire, err := io.ReadAll(mfr)
	verifrt.Assert("C39.tree-serializes", err == nil)
	mpr := multipart.NewReader(bytes.NewReader(wire), mfr.Boundary())
	dir, err := NewFileFromPartReader(mpr, multipartFormdataType)
	verifrt.Assert("C39.tree-parses", err == nil)
	var got []zzvItem
	err = zzvWalk("", dir, &got)
	verifrt.Assert("C39.tree-walks", err == nil)
	verifrt.Observe("n", len(got))
	verifrt.Assert("C39.tree-same-number-of-nodes", len(got) == len(want))
	for i := range want {
		if i >= len(got) {
			break
		}
		w, g := want[i], got[i]
		verifrt.Observe("path", g.path)
		verifrt.Assert("C39.tree-same-path", g.path == w.path)
		verifrt.Assert("C39.tree-same-type", g.kind == w.kind)
		verifrt.Assert("C39.tree-same-content-or-target", g.payload == w.payload)
		if form {
			if w.kind != 'l' {
				verifrt.Assert("C39.tree-same-mode", g.mode == w.mode)
			}
			verifrt.Assert("C39.tree-same-mtime", g.mtime.Equal(w.mtime) && g.mtime.IsZero() == w.mtime.IsZero())
		}
	}
	verifrt.Reach("end")
}
