package blockservice

// Recording blockstore / exchange stubs shared by the C04 (service part) and C05 harnesses.
// The stubs never assert (they may run on other goroutines); the harness inspects the log afterwards.

import (
	"context"
	"errors"

	"github.com/ipfs/boxo/exchange"
	blocks "github.com/ipfs/go-block-format"
	cid "github.com/ipfs/go-cid"
	ipld "github.com/ipfs/go-ipld-format"
	mh "github.com/multiformats/go-multihash"
)

// zzSlot is one pool block: a CID, the bytes that content addressing allows for it, whether the validator is
// expected to accept the CID (reference verdict), whether the local store holds it, whether the exchange has it.
type zzSlot struct {
	c     cid.Cid
	data  []byte
	valid bool // reference verdict (may be symbolic)
	local bool // in the blockstore stub (may be symbolic; updated by Put)
	avail bool // the exchange can deliver it (may be symbolic)
}

type zzOp struct {
	who  string // "bs" | "ex" | "ses"
	op   string
	slot int // pool index of the CID involved, -1 = not a pool CID
	c    cid.Cid
	seq  int
}

type zzWorld struct {
	pool []*zzSlot
	log  []zzOp
}

func (w *zzWorld) find(c cid.Cid) int {
	h := string(c.Hash())
	for i, s := range w.pool {
		if string(s.c.Hash()) == h {
			return i
		}
	}
	return -1
}

func (w *zzWorld) rec(who, op string, c cid.Cid) int {
	i := w.find(c)
	w.log = append(w.log, zzOp{who: who, op: op, slot: i, c: c, seq: len(w.log)})
	return i
}

func (w *zzWorld) block(i int) blocks.Block {
	b, err := blocks.NewBlockWithCid(w.pool[i].data, w.pool[i].c)
	if err != nil {
		panic(err)
	}
	return b
}

// ---- blockstore stub: a map keyed by multihash over the pool (plus whatever foreign blocks get Put) ----

type zzBS struct {
	w       *zzWorld
	foreign []blocks.Block
	failPut bool // every Put / PutMany fails without storing anything (recorded as "putfail")
}

var zzErrPut = errors.New("blockstore: put failed")

func (b *zzBS) DeleteBlock(ctx context.Context, c cid.Cid) error {
	if i := b.w.rec("bs", "delete", c); i >= 0 {
		b.w.pool[i].local = false
	}
	return nil
}

func (b *zzBS) Has(ctx context.Context, c cid.Cid) (bool, error) {
	if i := b.w.rec("bs", "has", c); i >= 0 {
		return b.w.pool[i].local, nil
	}
	return false, nil
}

func (b *zzBS) Get(ctx context.Context, c cid.Cid) (blocks.Block, error) {
	i := b.w.rec("bs", "get", c)
	if i >= 0 && b.w.pool[i].local {
		blk, err := blocks.NewBlockWithCid(b.w.pool[i].data, c)
		return blk, err
	}
	if i < 0 {
		for _, f := range b.foreign {
			if string(f.Cid().Hash()) == string(c.Hash()) {
				return blocks.NewBlockWithCid(f.RawData(), c)
			}
		}
	}
	return nil, ipld.ErrNotFound{Cid: c}
}

func (b *zzBS) GetSize(ctx context.Context, c cid.Cid) (int, error) {
	i := b.w.rec("bs", "getsize", c)
	if i >= 0 && b.w.pool[i].local {
		return len(b.w.pool[i].data), nil
	}
	return -1, ipld.ErrNotFound{Cid: c}
}

func (b *zzBS) Put(ctx context.Context, blk blocks.Block) error {
	if b.failPut {
		b.w.rec("bs", "putfail", blk.Cid())
		return zzErrPut
	}
	if i := b.w.rec("bs", "put", blk.Cid()); i >= 0 {
		b.w.pool[i].local = true
	} else {
		b.foreign = append(b.foreign, blk)
	}
	return nil
}

func (b *zzBS) PutMany(ctx context.Context, bl []blocks.Block) error {
	if b.failPut {
		for _, blk := range bl {
			b.w.rec("bs", "putfail", blk.Cid())
		}
		return zzErrPut
	}
	for _, blk := range bl {
		if i := b.w.rec("bs", "put", blk.Cid()); i >= 0 {
			b.w.pool[i].local = true
		} else {
			b.foreign = append(b.foreign, blk)
		}
	}
	return nil
}

func (b *zzBS) AllKeysChan(ctx context.Context) (<-chan cid.Cid, error) {
	return nil, errors.New("not used")
}

// ---- exchange stub ----

var zzErrExNotFound = errors.New("exchange: block not found")

// zzDeliver decides what a fetcher hands out for a request; set by the harness.
type zzDeliver func(who string, ks []cid.Cid) []blocks.Block

type zzFetch struct {
	w       *zzWorld
	who     string
	deliver zzDeliver
}

func (f *zzFetch) GetBlock(ctx context.Context, c cid.Cid) (blocks.Block, error) {
	f.w.rec(f.who, "getblock", c)
	out := f.deliver(f.who, []cid.Cid{c})
	if len(out) == 0 {
		return nil, zzErrExNotFound
	}
	return out[0], nil
}

func (f *zzFetch) GetBlocks(ctx context.Context, ks []cid.Cid) (<-chan blocks.Block, error) {
	for _, c := range ks {
		f.w.rec(f.who, "getblocks", c)
	}
	out := f.deliver(f.who, ks)
	ch := make(chan blocks.Block, len(out))
	for _, b := range out {
		ch <- b
	}
	close(ch)
	return ch, nil
}

// zzEx is a plain exchange.Interface.
type zzEx struct {
	zzFetch
	closed int
}

func (e *zzEx) NotifyNewBlocks(ctx context.Context, bl ...blocks.Block) error {
	for _, b := range bl {
		e.w.rec(e.who, "notify", b.Cid())
	}
	return nil
}

func (e *zzEx) Close() error { e.closed++; return nil }

// zzSesEx additionally offers sessions.
type zzSesEx struct {
	zzEx
	sessions int
}

func (e *zzSesEx) NewSession(ctx context.Context) exchange.Fetcher {
	e.sessions++
	return &zzFetch{w: e.w, who: "ses", deliver: e.deliver}
}

var (
	_ exchange.Interface       = (*zzEx)(nil)
	_ exchange.SessionExchange = (*zzSesEx)(nil)
)

// zzHonest delivers, in request order, the genuine block of every requested pool CID the exchange has.
func zzHonest(w *zzWorld) zzDeliver {
	return func(who string, ks []cid.Cid) []blocks.Block {
		var out []blocks.Block
		for _, c := range ks {
			if i := w.find(c); i >= 0 && w.pool[i].avail {
				b, err := blocks.NewBlockWithCid(w.pool[i].data, c)
				if err != nil {
					panic(err)
				}
				out = append(out, b)
			}
		}
		return out
	}
}

// ---- CID construction without hashing ----

func zzMkCid(codec uint64, code uint64, digestLen int, tag byte) cid.Cid {
	d := make([]byte, digestLen)
	for i := range d {
		d[i] = tag + byte(i)
	}
	m, err := mh.Encode(d, code)
	if err != nil {
		panic(err)
	}
	return cid.NewCidV1(codec, m)
}
