package blockservice

import (
	"bytes"
	"context"

	"github.com/ipfs/boxo/exchange"
	"github.com/ipfs/boxo/internal/verifrt"
	blocks "github.com/ipfs/go-block-format"
	cid "github.com/ipfs/go-cid"
	mh "github.com/multiformats/go-multihash"
)

// zzMhSum is the engine-side stand-in for multihash.Sum (crypto is opaque to the engine). The block service never
// looks inside a digest, it only compares CIDs, so the stand-in is a concrete injective function of the data
// (length byte, data, padding) — collision-free by construction on the payloads used here (<= 30 bytes).
// Natively the real multihash.Sum runs; no observation depends on digest values.
func zzMhSum(data []byte, code uint64, length int) (mh.Multihash, error) {
	if code == mh.IDENTITY {
		return mh.Encode(data, mh.IDENTITY)
	}
	if length < 0 {
		length = 32
	}
	if len(data) > 30 || length < 32 {
		panic("zzMhSum: payload outside the modelled domain")
	}
	d := make([]byte, length)
	d[0] = byte(len(data))
	copy(d[1:], data)
	for i := 1 + len(data); i < length; i++ {
		d[i] = 0x5c
	}
	return mh.Encode(d, code)
}

// Pool: slots 0..n-1 are the requested blocks (sha2-256 CIDs of their bytes, raw / dag-pb alternating), slot n is a
// valid block nobody asked for, slot n+1 is a CID the default allowlist rejects (shake-128). Block i carries the
// bytes {i, 0xAA}; any other payload under that CID is a block whose bytes do not hash to its CID.
func zzC05World(n int) *zzWorld {
	w := &zzWorld{}
	for i := 0; i <= n; i++ {
		codec := uint64(cid.Raw)
		if i%2 == 1 {
			codec = cid.DagProtobuf
		}
		data := []byte{byte(i), 0xAA}
		c, err := cid.Prefix{Version: 1, Codec: codec, MhType: mh.SHA2_256, MhLength: 32}.Sum(data)
		if err != nil {
			panic(err)
		}
		w.pool = append(w.pool, &zzSlot{c: c, data: data, valid: true})
	}
	w.pool = append(w.pool, &zzSlot{c: zzMkCid(cid.Raw, 0x18, 32, 0xE0), data: []byte{byte(n + 1), 0xAA}, valid: false})
	for _, s := range w.pool {
		s.local = verifrt.NondetBool("local")
	}
	return w
}

func zzGenuine(w *zzWorld, b blocks.Block) bool {
	i := w.find(b.Cid())
	return i >= 0 && bytes.Equal(b.RawData(), w.pool[i].data)
}

// zzScripted: the exchange answers a request with up to maxDeliver blocks.
// honest: every delivered block is the genuine block of one of the CIDs asked for in that very request (any
// subset, any order, repetitions allowed) — the documented contract of exchange.Fetcher.
// adversarial: any pool block (requested, unrequested, already local, rejected CID) with an arbitrary second
// payload byte (so possibly bytes that do not belong to the CID).
func zzScripted(w *zzWorld, honest bool, maxDeliver int) zzDeliver {
	return func(who string, ks []cid.Cid) []blocks.Block {
		var out []blocks.Block
		m := verifrt.NondetRange("deliveries", 0, maxDeliver)
		for d := 0; d < m; d++ {
			var slot int
			x := byte(0xAA)
			c := cid.Undef
			if honest {
				c = ks[verifrt.NondetRange("deliver.req", 0, len(ks)-1)]
				slot = w.find(c)
			} else {
				slot = verifrt.NondetRange("deliver.slot", 0, len(w.pool)-1)
				c = w.pool[slot].c
				if verifrt.NondetBool("deliver.alias") {
					// the same multihash under the other codec: a different CID for the same bytes
					codec := uint64(cid.Raw)
					if c.Prefix().Codec == cid.Raw {
						codec = cid.DagProtobuf
					}
					c = cid.NewCidV1(codec, c.Hash())
				}
				x = verifrt.NondetU8("deliver.byte")
			}
			b, err := blocks.NewBlockWithCid([]byte{byte(slot), x}, c)
			if err != nil {
				panic(err)
			}
			out = append(out, b)
		}
		return out
	}
}

func zzC05Service(w *zzWorld, honest bool, maxDeliver int) (BlockService, BlockGetter, context.Context) {
	bs := &zzBS{w: w, failPut: verifrt.NondetBool("putFails")}
	f := zzFetch{w: w, who: "ex", deliver: zzScripted(w, honest, maxDeliver)}
	var ex exchange.Interface = &zzEx{zzFetch: f}
	if verifrt.NondetBool("sessionExchange") {
		ex = &zzSesEx{zzEx: zzEx{zzFetch: f}}
	}
	svc := New(bs, ex)
	ctx := context.Background()
	if verifrt.NondetBool("viaSession") {
		return svc, NewSession(ctx, svc), ctx
	}
	return svc, svc, ctx
}

func zzFirstPut(w *zzWorld, slot int) int {
	for _, o := range w.log {
		if o.who == "bs" && o.op == "put" && o.slot == slot {
			return o.seq
		}
	}
	return -1
}

func zzC05GetBlock(honest bool) {
	w := zzC05World(1)
	_, g, ctx := zzC05Service(w, honest, 1)
	want := w.pool[0]
	wasLocal := want.local

	blk, err := g.GetBlock(ctx, want.c)
	verifrt.Observe("ok", err == nil)
	fetched := false
	for _, o := range w.log {
		if o.who != "bs" && (o.op == "getblock" || o.op == "getblocks") {
			fetched = true
			verifrt.Assert("C05.getblock-fetches-only-requested", o.slot == 0)
		}
	}
	if wasLocal {
		verifrt.Assert("C05.getblock-local-never-fetched", !fetched)
		verifrt.Assert("C05.getblock-local-succeeds", err == nil)
	}
	if err == nil {
		verifrt.Assert("C05.getblock-returns-requested-cid", blk.Cid().Equals(want.c))
		verifrt.Assert("C05.getblock-bytes-match-cid", zzGenuine(w, blk))
		if !wasLocal {
			i := w.find(blk.Cid())
			verifrt.Assert("C05.getblock-fetched-block-cached", i >= 0 && w.pool[i].local && zzFirstPut(w, i) >= 0)
		}
	} else {
		verifrt.Assert("C05.getblock-error-returns-nil", blk == nil)
	}
	verifrt.Reach("end")
}

// HarnessC05GetBlockHonest: GetBlock against an exchange that honours the Fetcher contract.
func HarnessC05GetBlockHonest() { zzC05GetBlock(true) }

// HarnessC05GetBlockAdversarial: GetBlock against an exchange that may return an unrequested block or wrong bytes.
func HarnessC05GetBlockAdversarial() { zzC05GetBlock(false) }

func zzC05GetBlocks(honest bool) {
	n := verifrt.NondetRange("n", 1, verifrt.Param("N", 3))
	w := zzC05World(n)
	_, g, ctx0 := zzC05Service(w, honest, verifrt.Param("D", 3))
	ctx, cancel := context.WithCancel(ctx0)
	defer cancel()

	// request: slots 0..n-1, optionally with a duplicate of slot 0 at the end or the rejected CID in front / at the end
	var ks []cid.Cid
	extra := verifrt.NondetRange("extra", 0, 3)
	if extra == 2 {
		ks = append(ks, w.pool[n+1].c)
	}
	for i := 0; i < n; i++ {
		ks = append(ks, w.pool[i].c)
	}
	if extra == 1 {
		ks = append(ks, w.pool[0].c)
	}
	if extra == 3 {
		ks = append(ks, w.pool[n+1].c) // the rejected CID in the last position
	}
	wasLocal := make([]bool, len(w.pool))
	for i, s := range w.pool {
		wasLocal[i] = s.local
	}
	cancelAfter := verifrt.NondetRange("cancelAfter", -1, verifrt.Param("CANCEL", 1))

	got := make([]int, len(w.pool))
	recv := 0
	if cancelAfter == 0 {
		cancel()
	}
	for b := range g.GetBlocks(ctx, ks) {
		logLen := len(w.log)
		recv++
		i := w.find(b.Cid())
		requested := i >= 0 && i < n
		verifrt.Assert("C05.getblocks-emits-only-requested", requested)
		exact := false
		for _, k := range ks {
			if k.Equals(b.Cid()) {
				exact = true
			}
		}
		verifrt.Assert("C05.getblocks-emitted-cid-was-requested", exact)
		verifrt.Assert("C05.getblocks-bytes-match-cid", zzGenuine(w, b))
		if i >= 0 {
			got[i]++
			if !wasLocal[i] {
				p := zzFirstPut(w, i)
				verifrt.Assert("C05.getblocks-fetched-block-cached-before-emit", p >= 0 && p < logLen && w.pool[i].local)
			}
		}
		if recv == cancelAfter {
			cancel()
		}
	}
	if cancelAfter < 0 {
		verifrt.Observe("received", recv) // after a cancellation Go's select picks among ready cases at random
	}

	delivered := make([]bool, len(w.pool))
	for _, o := range w.log {
		if o.who != "bs" && (o.op == "getblock" || o.op == "getblocks") {
			verifrt.Assert("C05.getblocks-fetches-only-requested", o.slot >= 0 && o.slot < n)
			if o.slot >= 0 {
				verifrt.Assert("C05.getblocks-local-never-fetched", !wasLocal[o.slot])
			}
		}
		if o.who == "bs" && o.op == "put" && o.slot >= 0 {
			delivered[o.slot] = true
		}
	}
	if cancelAfter < 0 {
		// without cancellation nothing obtainable is lost: every local requested block is emitted, and so is
		// every block the exchange delivered for a request (it was cached, so it must also be handed over)
		for i := 0; i < n; i++ {
			if wasLocal[i] {
				verifrt.Assert("C05.getblocks-local-block-emitted", got[i] >= 1)
			} else if delivered[i] {
				verifrt.Assert("C05.getblocks-delivered-block-emitted", got[i] >= 1)
			}
		}
	}
	verifrt.Reach("end")
}

// HarnessC05GetBlocksHonest: GetBlocks against an exchange that delivers any subset of the blocks it was asked
// for, in any order.
func HarnessC05GetBlocksHonest() { zzC05GetBlocks(true) }

// HarnessC05GetBlocksAdversarial: GetBlocks against an exchange that may deliver unrequested, already local or
// rejected blocks and bytes that do not belong to the CID.
func HarnessC05GetBlocksAdversarial() { zzC05GetBlocks(false) }

// HarnessC05GetBlocksHonestSched: the same harness under schedule exploration (one pre-emption; select picks any
// ready case), small bounds.
func HarnessC05GetBlocksHonestSched() { zzC05GetBlocks(true) }

// ---------------------------------------------------------------------------------------------------------
// Two block services, one context. Services A and B have their own blockstore and their own (contract-abiding,
// recording) exchange over the same CIDs. The context carries a session embedded for A (ContextWithSession or
// EmbedSessionInContext); it is then used on A or on B. The C05 clauses must hold for the service that was called:
// a CID local to it never reaches any exchange, every block handed out is in ITS store, only requested CIDs
// come back.
// ---------------------------------------------------------------------------------------------------------

func zzC05Svc2(w *zzWorld, sessionEx bool, maxDeliver int) BlockService {
	f := zzFetch{w: w, who: "ex", deliver: zzScripted(w, true, maxDeliver)}
	var ex exchange.Interface = &zzEx{zzFetch: f}
	if sessionEx {
		ex = &zzSesEx{zzEx: zzEx{zzFetch: f}}
	}
	return New(&zzBS{w: w}, ex)
}

func zzFetchedSlots(ws []*zzWorld, n int) []bool {
	f := make([]bool, n+2)
	for _, w := range ws {
		for _, o := range w.log {
			if o.who != "bs" && (o.op == "getblock" || o.op == "getblocks") && o.slot >= 0 {
				f[o.slot] = true
			}
		}
	}
	return f
}

func HarnessC05TwoServices() {
	n := verifrt.NondetRange("n", 1, verifrt.Param("N", 2))
	wA, wB := zzC05World(n), zzC05World(n)
	sesEx := verifrt.NondetBool("sessionExchange")
	d := verifrt.Param("D", 2)
	svcA, svcB := zzC05Svc2(wA, sesEx, d), zzC05Svc2(wB, sesEx, d)

	ctx := context.Background()
	if verifrt.NondetBool("embedExplicit") {
		ctx = EmbedSessionInContext(ctx, NewSession(ctx, svcA))
	} else {
		ctx = ContextWithSession(ctx, svcA)
	}
	// the service that is called, its world, and both worlds for the exchange logs
	svc, w := svcA, wA
	if verifrt.NondetBool("callB") {
		svc, w = svcB, wB
	}
	ws := []*zzWorld{wA, wB}
	wasLocal := make([]bool, len(w.pool))
	for i, s := range w.pool {
		wasLocal[i] = s.local
	}

	if verifrt.NondetBool("single") {
		want := w.pool[0]
		blk, err := svc.GetBlock(ctx, want.c)
		verifrt.Observe("ok", err == nil)
		fetched := zzFetchedSlots(ws, n)
		if wasLocal[0] {
			verifrt.Assert("C05.two-services-local-never-fetched", !fetched[0])
			verifrt.Assert("C05.two-services-local-succeeds", err == nil)
		}
		if err == nil {
			verifrt.Assert("C05.two-services-returns-requested-cid", blk.Cid().Equals(want.c))
			verifrt.Assert("C05.two-services-block-in-called-store", w.pool[0].local)
		}
		verifrt.Reach("end")
		return
	}

	ks := make([]cid.Cid, n)
	for i := range ks {
		ks[i] = w.pool[i].c
	}
	got := make([]int, len(w.pool))
	for b := range svc.GetBlocks(ctx, ks) {
		i := w.find(b.Cid())
		verifrt.Assert("C05.two-services-emits-only-requested", i >= 0 && i < n)
		if i >= 0 {
			got[i]++
			verifrt.Assert("C05.two-services-block-in-called-store", w.pool[i].local)
		}
	}
	fetched := zzFetchedSlots(ws, n)
	for i := 0; i < n; i++ {
		verifrt.Observe("got", got[i])
		if wasLocal[i] {
			verifrt.Assert("C05.two-services-local-never-fetched", !fetched[i])
			verifrt.Assert("C05.two-services-local-block-emitted", got[i] >= 1)
		}
	}
	verifrt.Reach("end")
}
