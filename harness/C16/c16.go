package io

import (
	"context"
	"os"
	"time"

	"github.com/ipfs/boxo/internal/verifrt"
	mdag "github.com/ipfs/boxo/ipld/merkledag"
	format "github.com/ipfs/boxo/ipld/unixfs"
	cid "github.com/ipfs/go-cid"
	ipld "github.com/ipfs/go-ipld-format"
)

// ---------------------------------------------------------------------------------------------------
// T1: the basic -> HAMT decision against the documented rule
// ---------------------------------------------------------------------------------------------------

func zzvRefVarintLen(v uint64) int {
	n := 1
	for v >= 0x80 {
		v >>= 7
		n++
	}
	return n
}

// zzvRefLinkBytes: size of one PBLink inside PBNode.Links, from the dag-pb wire format.
func zzvRefLinkBytes(nameLen, cidLen int, tsize uint64) int {
	body := 1 + zzvRefVarintLen(uint64(cidLen)) + cidLen + 1 + zzvRefVarintLen(uint64(nameLen)) + nameLen + 1 + zzvRefVarintLen(tsize)
	return 1 + zzvRefVarintLen(uint64(body)) + body
}

func zzvBounded(name string, lo, hi int) int {
	v := verifrt.NondetInt(name)
	verifrt.Assume(v >= lo)
	verifrt.Assume(v <= hi)
	return v
}

// HarnessC16SwitchPredicate: BasicDirectory.needsToSwitchToHAMTDir for a directory state with symbolic tracked
// size, link count, max-links, per-directory and global thresholds, in all three estimation modes, adding a new name
// or replacing an existing one. Rule (doc of HAMTShardingSize / WithMaxLinks): with the effective threshold T
// (per-directory if > 0, else global; 0 = never), switch iff size-after-the-operation > T (strictly; size as defined
// by the mode; ignored when estimation is disabled) or the operation adds a new name and count+1 > maxLinks > 0.
func HarnessC16SwitchPredicate() {
	mode := SizeEstimationMode(verifrt.NondetRange("mode", 0, 2))
	est := zzvBounded("est", 0, 1<<40)
	total := zzvBounded("total", 0, 1<<30)
	maxLinks := zzvBounded("maxLinks", -2, 1<<30)
	perDir := zzvBounded("perDir", -2, 1<<40)
	global := zzvBounded("global", 0, 1<<40)
	replace := verifrt.NondetBool("replace")
	const name = "entry"
	oldCid, newCid := zzvCid(6, 0xA1), zzvCid(verifrt.NondetRange("newCid", 0, 1), 2)
	oldTs := verifrt.NondetU64("oldTs")
	newTs := verifrt.NondetU64("newTs")
	verifrt.Assume(oldTs < 1<<14)
	verifrt.Assume(newTs < 1<<14)

	nd := format.EmptyDirNode()
	nd.AddRawLink("other", &ipld.Link{Cid: zzvCid(1, 0xA3), Size: 7})
	if replace {
		nd.AddRawLink(name, &ipld.Link{Cid: oldCid, Size: oldTs})
	}
	d := &BasicDirectory{node: nd, estimatedSize: est, totalLinks: total, maxLinks: maxLinks, hamtShardingSize: perDir, sizeEstimation: &mode}
	savedG := HAMTShardingSize
	HAMTShardingSize = global
	got, err := d.needsToSwitchToHAMTDir(name, &zzvChild{c: newCid, size: newTs})
	HAMTShardingSize = savedG
	verifrt.Assert("C16.predicate-no-error", err == nil)
	verifrt.Observe("got", got)

	thr := global
	if perDir > 0 {
		thr = perDir
	}
	if thr == 0 {
		verifrt.Assert("C16.predicate-threshold-zero-never-switches", !got)
		verifrt.Reach("end")
		return
	}
	var oldSz, newSz int
	switch mode {
	case SizeEstimationLinks:
		oldSz, newSz = len(name)+len(oldCid.Bytes()), len(name)+len(newCid.Bytes())
	case SizeEstimationBlock:
		oldSz = zzvRefLinkBytes(len(name), len(oldCid.Bytes()), oldTs)
		newSz = zzvRefLinkBytes(len(name), len(newCid.Bytes()), newTs)
	}
	after := est + newSz
	if replace {
		after -= oldSz
	}
	bySize := mode != SizeEstimationDisabled && after > thr
	byLinks := !replace && maxLinks > 0 && total+1 > maxLinks
	if bySize {
		verifrt.Assert("C16.predicate-switch-when-size-above-threshold", got)
	} else if byLinks {
		verifrt.Assert("C16.predicate-switch-when-links-above-max", got)
	} else {
		verifrt.Assert("C16.predicate-stay-basic-otherwise", !got)
	}
	verifrt.Reach("end")
}

// ---------------------------------------------------------------------------------------------------
// T1/T3: configuration survives each of the four conversion paths
// ---------------------------------------------------------------------------------------------------

var zzvFanouts = []int{8, 256, 1024, 16, 32, 64, 128, 512}

type zzvConfig struct {
	maxLinks, fanout, threshold int
	em                          SizeEstimationMode
	mode                        os.FileMode
	mtime                       time.Time
	v1                          bool
}

func zzvBuilder(v1 bool) cid.Builder {
	if v1 {
		return cid.V1Builder{Codec: cid.DagProtobuf, MhType: 0x12}
	}
	return nil
}

func zzvInner(d Directory) Directory { return d.(*DynamicDirectory).Directory }

func zzvIsHAMT(d Directory) bool {
	_, ok := zzvInner(d).(*HAMTDirectory)
	return ok
}

func zzvStatOf(d Directory) (os.FileMode, time.Time) {
	switch x := zzvInner(d).(type) {
	case *BasicDirectory:
		return x.mode, x.mtime
	case *HAMTDirectory:
		return x.mode, x.mtime
	}
	panic("unknown directory type")
}

func zzvCheckConfig(where string, d Directory, c zzvConfig) {
	verifrt.Observe(where+"-threshold", d.GetHAMTShardingSize())
	verifrt.Assert("C16.config-max-links-"+where, d.GetMaxLinks() == c.maxLinks)
	verifrt.Assert("C16.config-fanout-"+where, d.GetMaxHAMTFanout() == c.fanout)
	verifrt.Assert("C16.config-threshold-"+where, d.GetHAMTShardingSize() == c.threshold)
	verifrt.Assert("C16.config-estimation-mode-"+where, d.GetSizeEstimationMode() == c.em)
	m, t := zzvStatOf(d)
	verifrt.Assert("C16.config-mode-"+where, m.Perm() == c.mode.Perm())
	verifrt.Assert("C16.config-mtime-"+where, t.Equal(c.mtime))
	nd, err := d.GetNode()
	verifrt.Assert("C16.config-getnode-ok-"+where, err == nil)
	wantVer := uint64(0)
	if c.v1 {
		wantVer = 1
	}
	verifrt.Assert("C16.config-cid-version-"+where, nd.Cid().Version() == wantVer)
	// the stat is also what the root node carries
	fsn, err := format.FSNodeFromBytes(nd.(*mdag.ProtoNode).Data())
	verifrt.Assert("C16.config-root-parses-"+where, err == nil)
	wantType := format.TDirectory
	if zzvIsHAMT(d) {
		wantType = format.THAMTShard
		verifrt.Assert("C16.config-root-fanout-"+where, int(fsn.Fanout()) == c.fanout)
	}
	verifrt.Assert("C16.config-root-type-"+where, fsn.Type() == wantType)
	verifrt.Assert("C16.config-root-perm-"+where, fsn.Mode().Perm() == c.mode.Perm())
	verifrt.Assert("C16.config-root-mtime-"+where, fsn.ModTime().Equal(c.mtime))
}

// HarnessC16Convert: one conversion on each of the four paths of DynamicDirectory (basic->HAMT by size, basic->HAMT
// by link count, HAMT->basic through AddChild, HAMT->basic through RemoveChild), decided by the real predicates;
// configuration values are symbolic inside the ranges that force the intended decision. The directory installed
// after the call must report exactly the configuration the directory had before.
func HarnessC16Convert() {
	ctx := context.Background()
	ds := &zzvDag{}
	zzvHashTable = map[string][]byte{
		"a": {0x00, 0, 0, 0, 0, 0, 0, 1},
		"b": {0x20, 0, 0, 0, 0, 0, 0, 2},
	}
	savedH := hamtHashHook()
	defer savedH()

	path := verifrt.NondetRange("path", 0, 3)
	var c zzvConfig
	c.fanout = zzvFanouts[verifrt.NondetRange("fanout", 0, verifrt.Param("FANOUTS", 3)-1)]
	c.v1 = verifrt.NondetBool("cidv1")
	if verifrt.NondetBool("withstat") {
		// concrete stat: symbolic bytes in the root node would make every CID comparison of the in-memory DAG
		// service a solver query; the stat classes are C17/C18's subject
		c.mode = 0o2750
		c.mtime = time.Unix(1700000000, 5)
	}
	big := &zzvChild{c: zzvCid(6, 0xA1), size: 5}
	small := &zzvChild{c: zzvCid(0, 0xA2), size: 5}
	small2 := &zzvChild{c: zzvCid(0, 0xA3), size: 6}

	var d Directory
	var err error
	switch path {
	case 0: // basic -> HAMT because the size passes the per-directory threshold
		c.em = SizeEstimationMode(verifrt.NondetRange("em", 0, 1))
		c.maxLinks = zzvBounded("maxLinks", 0, 1<<20)
		verifrt.Assume(c.maxLinks != 1)
		c.threshold = zzvBounded("threshold", 1, 30)
		d, err = NewDirectory(ds, WithMaxLinks(c.maxLinks), WithMaxHAMTFanout(c.fanout), WithCidBuilder(zzvBuilder(c.v1)),
			WithStat(c.mode, c.mtime), WithSizeEstimationMode(c.em))
		verifrt.Assert("C16.convert-new-ok", err == nil)
		d.SetHAMTShardingSize(c.threshold)
		zzvCheckConfig("before", d, c)
		err = d.AddChild(ctx, "a", small)
		verifrt.Assert("C16.convert-op-ok", err == nil)
		verifrt.Assert("C16.convert-to-hamt-by-size-happened", zzvIsHAMT(d))
	case 1: // basic -> HAMT because the link count passes max-links
		c.em = SizeEstimationMode(verifrt.NondetRange("em", 0, 2))
		c.maxLinks = 1
		c.threshold = zzvBounded("threshold", 1000, 1<<30)
		d, err = NewDirectory(ds, WithMaxLinks(c.maxLinks), WithMaxHAMTFanout(c.fanout), WithCidBuilder(zzvBuilder(c.v1)),
			WithStat(c.mode, c.mtime), WithSizeEstimationMode(c.em))
		verifrt.Assert("C16.convert-new-ok", err == nil)
		d.SetHAMTShardingSize(c.threshold)
		err = d.AddChild(ctx, "a", small)
		verifrt.Assert("C16.convert-prep-ok", err == nil)
		verifrt.Assert("C16.convert-still-basic", !zzvIsHAMT(d))
		zzvCheckConfig("before", d, c)
		err = d.AddChild(ctx, "b", small2)
		verifrt.Assert("C16.convert-op-ok", err == nil)
		verifrt.Assert("C16.convert-to-hamt-by-links-happened", zzvIsHAMT(d))
	case 2, 3: // HAMT -> basic: a sharded directory loaded from its root, configured the way MFS does, then shrunk
		c.em = SizeEstimationMode(verifrt.NondetRange("em", 0, 2))
		c.maxLinks = zzvBounded("maxLinks", 10, 1<<20)
		c.threshold = zzvBounded("threshold", 1000, 1<<30)
		h, err := NewHAMTDirectory(ds, 0, WithMaxHAMTFanout(c.fanout), WithCidBuilder(zzvBuilder(c.v1)), WithStat(c.mode, c.mtime))
		verifrt.Assert("C16.convert-new-ok", err == nil)
		err = h.AddChild(ctx, "a", big)
		verifrt.Assert("C16.convert-prep-ok", err == nil)
		if path == 3 {
			err = h.AddChild(ctx, "b", small2)
			verifrt.Assert("C16.convert-prep-ok", err == nil)
		}
		root, err := h.GetNode()
		verifrt.Assert("C16.convert-prep-node-ok", err == nil)
		d, err = NewDirectoryFromNode(ds, root)
		verifrt.Assert("C16.convert-load-ok", err == nil)
		verifrt.Assert("C16.convert-loaded-is-hamt", zzvIsHAMT(d))
		d.SetMaxLinks(c.maxLinks)
		d.SetMaxHAMTFanout(c.fanout)
		d.SetHAMTShardingSize(c.threshold)
		d.SetSizeEstimationMode(c.em)
		zzvCheckConfig("before", d, c)
		if path == 2 {
			err = d.AddChild(ctx, "a", small)
			verifrt.Assert("C16.convert-op-ok", err == nil)
			verifrt.Assert("C16.convert-to-basic-by-add-happened", !zzvIsHAMT(d))
		} else {
			err = d.RemoveChild(ctx, "a")
			verifrt.Assert("C16.convert-op-ok", err == nil)
			verifrt.Assert("C16.convert-to-basic-by-remove-happened", !zzvIsHAMT(d))
		}
	}
	zzvCheckConfig("after", d, c)
	verifrt.Reach("end")
}

// ---------------------------------------------------------------------------------------------------
// T3: bounded edit histories on an automatically switching directory
// ---------------------------------------------------------------------------------------------------

var zzvPool = []string{"a", "b", "c"}

// zzvTables: HAMT hash values of the pool names. Table 0: no collisions. Table 1 (3 bits per level, fan-out 8):
// a and c share two levels and split on the third, b shares the first level with them.
var zzvTables = [][][]byte{
	{{0x00, 0, 0, 0, 0, 0, 0, 1}, {0x20, 0, 0, 0, 0, 0, 0, 2}, {0x40, 0, 0, 0, 0, 0, 0, 3}},
	{{0x00, 0, 0, 0, 0, 0, 0, 1}, {0x04, 0, 0, 0, 0, 0, 0, 2}, {0x00, 0x80, 0, 0, 0, 0, 0, 3}},
}

func zzvSameListing(id string, links []*ipld.Link, model map[string]int, nodes []*zzvChild) {
	verifrt.Assert(id+"-count", len(links) == len(model))
	seen := map[string]bool{}
	for _, l := range links {
		idx, ok := model[l.Name]
		verifrt.Assert(id+"-only-model-names", ok)
		verifrt.Assert(id+"-no-duplicates", !seen[l.Name])
		seen[l.Name] = true
		if ok {
			verifrt.Assert(id+"-target", l.Cid.Equals(nodes[idx].c))
			verifrt.Assert(id+"-tsize", l.Size == nodes[idx].size)
		}
	}
}

func zzvCheckAgainstModel(ctx context.Context, where string, d Directory, model map[string]int, nodes []*zzvChild) {
	for _, name := range zzvPool {
		nd, err := d.Find(ctx, name)
		if idx, ok := model[name]; ok {
			verifrt.Assert("C16.listing-find-present-"+where, err == nil && nd != nil && nd.Cid().Equals(nodes[idx].c))
		} else {
			verifrt.Assert("C16.listing-find-absent-not-exist-"+where, err != nil && os.IsNotExist(err))
		}
	}
	links, err := d.Links(ctx)
	verifrt.Assert("C16.listing-links-ok-"+where, err == nil)
	zzvSameListing("C16.listing-links-"+where, links, model, nodes)
	var each []*ipld.Link
	err = d.ForEachLink(ctx, func(l *ipld.Link) error {
		each = append(each, &ipld.Link{Name: l.Name, Size: l.Size, Cid: l.Cid})
		return nil
	})
	verifrt.Assert("C16.listing-foreach-ok-"+where, err == nil)
	zzvSameListing("C16.listing-foreach-"+where, each, model, nodes)
	var async []*ipld.Link
	for r := range d.EnumLinksAsync(ctx) {
		verifrt.Assert("C16.listing-async-ok-"+where, r.Err == nil)
		if r.Err == nil {
			async = append(async, r.Link)
		}
	}
	zzvSameListing("C16.listing-async-"+where, async, model, nodes)
}

// zzvRuleSize: the size the documented rule talks about, for the given estimation mode.
func zzvRuleSize(em SizeEstimationMode, model map[string]int, nodes []*zzvChild) int {
	size := 0
	if em == SizeEstimationBlock {
		size = 4 // PBNode.Data: tag, length 2, {Type: Directory}
	}
	for name, idx := range model {
		switch em {
		case SizeEstimationLinks:
			size += len(name) + len(nodes[idx].c.Bytes())
		case SizeEstimationBlock:
			size += zzvRefLinkBytes(len(name), len(nodes[idx].c.Bytes()), nodes[idx].size)
		}
	}
	return size
}

func zzvNewDyn(ds ipld.DAGService, em SizeEstimationMode, maxLinks, fanout, threshold int) Directory {
	d, err := NewDirectory(ds, WithMaxLinks(maxLinks), WithMaxHAMTFanout(fanout), WithSizeEstimationMode(em))
	verifrt.Assert("C16.hist-new-ok", err == nil)
	d.SetHAMTShardingSize(threshold)
	return d
}

// zzvInitialSets: entry subsets of the three-name pool (bit i = pool name i) in the order the tiers take them: the
// sets with two or three entries first (they have sub-shards under the collision tables), then the rest.
var zzvInitialSets = []int{7, 5, 3, 6, 1, 4, 2, 0}

// HarnessC16Histories: bounded edit histories on a DynamicDirectory, three families chosen by the engine.
// Family 0 (size boundary): K edits (add/replace with one of two nodes of different CID length, or remove) over the
// three-name pool; the per-directory threshold sits at the size of {a,b -> small node} -1/0/+1 (symbolic); max-links 0
// (or 2 in the thorough tier).
// Family 1 (link-count boundary): LK steps over LPOOL names with max-links 1..LMAXLINKS and a threshold far away
// (2^20), so that only the link count decides; a step is add/replace with one of two nodes of EQUAL CID length and
// Tsize width (an overwrite changes the value but not the size), remove, or - without hash collisions - a
// serialize/load boundary (GetNode, NewDirectoryFromNode, settings re-applied).
// Family 2 (sharded across reloads): an entry subset chosen by the engine is built, serialized and loaded again, so
// every child is an unloaded link; then RK steps (add, replace, remove, or another serialize/load boundary) with a
// symbolic threshold 4..30 below the size of any single entry, i.e. the directory stays sharded until it is empty.
// After every edit the directory is sharded exactly when the documented rule says so (and, in families 0 and 2, all
// enumeration APIs agree with a map model); at the end all enumeration APIs agree with the model, the root (type and
// CID) is compared with a fresh build of the final entry set (names in ascending order) under the same configuration,
// and the root is re-loaded and listed.
func HarnessC16Histories() {
	ctx := context.Background()
	ds := &zzvDag{}
	variant := verifrt.NondetRange("variant", 0, verifrt.Param("VARIANTS", 3)-1)
	ntables := verifrt.Param("TABLES", 2)
	if variant == 1 {
		ntables = verifrt.Param("LTABLES", 1)
	}
	table := verifrt.NondetRange("table", 0, ntables-1)
	tbl := zzvTables[table]
	zzvHashTable = map[string][]byte{}
	for i, n := range zzvPool {
		zzvHashTable[n] = tbl[i]
	}
	defer hamtHashHook()()
	nodes := []*zzvChild{{c: zzvCid(0, 0xA1), size: 5}, {c: zzvCid(6, 0xA2), size: 300}, {c: zzvCid(0, 0xA3), size: 7}}
	for _, n := range nodes {
		ds.Add(ctx, n)
	}
	fanout := 8
	var em SizeEstimationMode
	var maxLinks, threshold, k int
	pool := zzvPool
	targets := [2]int{0, 1}
	nops := 3 // add target 0, add target 1, remove (+ serialize/load boundary where enabled)
	initial := 0
	switch variant {
	case 0:
		em = SizeEstimationMode(verifrt.NondetRange("em", 0, verifrt.Param("MODES", 3)-1))
		maxLinks = 2 * verifrt.NondetRange("maxlinks2", 0, verifrt.Param("MAXLINKS", 1))
		base := zzvRuleSize(em, map[string]int{"a": 0, "b": 0}, nodes)
		if em == SizeEstimationDisabled {
			base = 100
		}
		threshold = zzvBounded("threshold", base-1, base+1)
		k = verifrt.Param("K", 2)
	case 1:
		em = SizeEstimationMode(verifrt.NondetRange("em", 0, verifrt.Param("LMODES", 1)-1))
		maxLinks = verifrt.NondetRange("maxlinks", 1, verifrt.Param("LMAXLINKS", 1))
		threshold = 1 << 20
		k = verifrt.Param("LK", 3)
		pool = zzvPool[:verifrt.Param("LPOOL", 2)]
		targets = [2]int{0, 2}
		if table == 0 {
			// a HAMT loaded from a node counts root links, not entries; with colliding names and max-links set that
			// is HarnessC16Downgrade's subject (known finding C16.down-op-ok), so reloads need collision-free names
			nops = 3 + verifrt.Param("LRELOAD", 1)
		}
	default:
		em = SizeEstimationMode(verifrt.NondetRange("em", 0, verifrt.Param("RMODES", 1)-1))
		// 4..30: at least the 4-byte Data field the block estimate gives an empty directory (an empty directory is
		// basic under the rule), below the size of any single entry (>= 35)
		threshold = zzvBounded("threshold", 4, 30)
		k = verifrt.Param("RK", 1)
		nops = 3 + verifrt.Param("RRELOAD", 0)
		initial = zzvInitialSets[verifrt.NondetRange("initial", 0, verifrt.Param("INITIALS", 4)-1)]
	}
	d := zzvNewDyn(ds, em, maxLinks, fanout, threshold)
	model := map[string]int{}
	reload := func() {
		// serialize / load boundary: what follows runs on a directory whose children are unloaded links
		mid, err := d.GetNode()
		verifrt.Assert("C16.hist-getnode-ok", err == nil)
		ds.Add(ctx, mid)
		sharded := zzvIsHAMT(d)
		d, err = NewDirectoryFromNode(ds, mid)
		verifrt.Assert("C16.hist-reload-ok", err == nil)
		verifrt.Assert("C16.hist-reload-keeps-root-type", zzvIsHAMT(d) == sharded)
		// the node carries neither max-links nor the threshold nor the estimation mode: set them the way MFS does
		d.SetMaxLinks(maxLinks)
		d.SetMaxHAMTFanout(fanout)
		d.SetSizeEstimationMode(em)
		d.SetHAMTShardingSize(threshold)
	}
	if variant == 2 {
		for i, name := range zzvPool {
			if initial>>i&1 == 1 {
				verifrt.Assert("C16.hist-add-ok", d.AddChild(ctx, name, nodes[i&1]) == nil)
				model[name] = i & 1
			}
		}
		verifrt.Assert("C16.sharded-when-rule-says-sharded", zzvIsHAMT(d) == (len(model) > 0))
		reload()
	}
	for i := 0; i < k; i++ {
		op := verifrt.NondetRange("op", 0, nops-1)
		if op == 3 {
			reload()
			continue
		}
		name := pool[verifrt.NondetRange("name", 0, len(pool)-1)]
		wasHAMT := zzvIsHAMT(d)
		if op < 2 {
			err := d.AddChild(ctx, name, nodes[targets[op]])
			verifrt.Assert("C16.hist-add-ok", err == nil)
			model[name] = targets[op]
		} else {
			err := d.RemoveChild(ctx, name)
			if _, ok := model[name]; ok {
				verifrt.Assert("C16.hist-remove-ok", err == nil)
			} else {
				verifrt.Assert("C16.hist-remove-missing-not-exist", err != nil && os.IsNotExist(err))
			}
			delete(model, name)
		}
		if variant != 1 {
			zzvCheckAgainstModel(ctx, "live", d, model, nodes)
		}
		size := zzvRuleSize(em, model, nodes)
		want := maxLinks > 0 && len(model) > maxLinks
		if em != SizeEstimationDisabled && size > threshold {
			want = true
		}
		verifrt.Observe("sharded", zzvIsHAMT(d))
		// Classification only (not part of the oracle): a directory that stays sharded although the rule says basic
		// while its net size change since it became sharded is still >= 0 is the documented-in-code short cut of
		// needsToSwitchToBasicDir ("size did not go below what it was"); it gets its own id so that any other way of
		// staying sharded (threshold comparison, enumeration, max-links) is reported separately.
		gated := false
		if hd, ok := zzvInner(d).(*HAMTDirectory); ok && wasHAMT && hd.sizeChange >= 0 {
			gated = true
		}
		if want {
			verifrt.Assert("C16.sharded-when-rule-says-sharded", zzvIsHAMT(d))
		} else if gated {
			verifrt.Assert("C16.basic-when-rule-says-basic-size-change-gate", !zzvIsHAMT(d))
		} else {
			verifrt.Assert("C16.basic-when-rule-says-basic", !zzvIsHAMT(d))
		}
	}
	if variant == 1 {
		zzvCheckAgainstModel(ctx, "live", d, model, nodes)
	}
	root, err := d.GetNode()
	verifrt.Assert("C16.hist-getnode-ok", err == nil)
	ds.Add(ctx, root)
	// canonical fresh build
	d2 := zzvNewDyn(ds, em, maxLinks, fanout, threshold)
	for _, name := range zzvPool {
		if idx, ok := model[name]; ok {
			verifrt.Assert("C16.hist-fresh-add-ok", d2.AddChild(ctx, name, nodes[idx]) == nil)
		}
	}
	root2, err := d2.GetNode()
	verifrt.Assert("C16.hist-fresh-getnode-ok", err == nil)
	verifrt.Assert("C16.root-type-history-independent", zzvIsHAMT(d) == zzvIsHAMT(d2))
	verifrt.Assert("C16.root-cid-history-independent", root.Cid().Equals(root2.Cid()))
	// reload
	d3, err := NewDirectoryFromNode(ds, root)
	verifrt.Assert("C16.hist-reload-ok", err == nil)
	zzvCheckAgainstModel(ctx, "reloaded", d3, model, nodes)
	verifrt.Reach("end")
}

// HarnessC16Downgrade: the HAMT -> basic decision at the boundary. A sharded directory {a,b -> 34-byte CID, c ->
// 135-byte CID} is loaded from its root (net size change 0, so every shrinking edit is evaluated exactly), configured
// with a symbolic max-links 0..4 and a per-directory threshold within +-1 of the size the directory has after the
// edit; the edit removes c, replaces c by the small target, or removes a. Rule: it becomes basic iff the size after
// the edit is not above the threshold (size rule off when estimation is disabled: then max-links must be set) and the
// entry count does not exceed a set max-links.
func HarnessC16Downgrade() {
	ctx := context.Background()
	ds := &zzvDag{}
	tbl := zzvTables[verifrt.NondetRange("table", 0, 1)]
	zzvHashTable = map[string][]byte{}
	for i, n := range zzvPool {
		zzvHashTable[n] = tbl[i]
	}
	defer hamtHashHook()()
	nodes := []*zzvChild{{c: zzvCid(0, 0xA1), size: 5}, {c: zzvCid(6, 0xA2), size: 300}}
	for _, n := range nodes {
		ds.Add(ctx, n)
	}
	em := SizeEstimationMode(verifrt.NondetRange("em", 0, 2))
	h, err := NewHAMTDirectory(ds, 0, WithMaxHAMTFanout(8))
	verifrt.Assert("C16.down-new-ok", err == nil)
	model := map[string]int{"a": 0, "b": 0, "c": 1}
	for _, name := range zzvPool {
		verifrt.Assert("C16.down-prep-ok", h.AddChild(ctx, name, nodes[model[name]]) == nil)
	}
	root, err := h.GetNode()
	verifrt.Assert("C16.down-prep-node-ok", err == nil)
	d, err := NewDirectoryFromNode(ds, root)
	verifrt.Assert("C16.down-load-ok", err == nil)
	op := verifrt.NondetRange("op", 0, 2)
	switch op {
	case 0:
		delete(model, "c")
	case 1:
		model["c"] = 0
	case 2:
		delete(model, "a")
	}
	after := zzvRuleSize(em, model, nodes)
	if em == SizeEstimationDisabled {
		after = 100
	}
	threshold := zzvBounded("threshold", after-1, after+1)
	maxLinks := zzvBounded("maxLinks", 0, 4)
	d.SetMaxLinks(maxLinks)
	d.SetMaxHAMTFanout(8)
	d.SetSizeEstimationMode(em)
	d.SetHAMTShardingSize(threshold)
	switch op {
	case 0:
		err = d.RemoveChild(ctx, "c")
	case 1:
		err = d.AddChild(ctx, "c", nodes[0])
	case 2:
		err = d.RemoveChild(ctx, "a")
	}
	verifrt.Assert("C16.down-op-ok", err == nil)
	verifrt.Observe("sharded", zzvIsHAMT(d))
	linksOK := maxLinks == 0 || len(model) <= maxLinks
	var sizeOK bool
	if em == SizeEstimationDisabled {
		sizeOK = maxLinks > 0
	} else {
		sizeOK = after <= threshold
	}
	if sizeOK && linksOK {
		verifrt.Assert("C16.down-basic-when-rule-says-basic", !zzvIsHAMT(d))
	} else {
		verifrt.Assert("C16.down-sharded-when-rule-says-sharded", zzvIsHAMT(d))
	}
	zzvCheckAgainstModel(ctx, "downgrade", d, model, nodes)
	if op != 1 { // the AddChild conversion path and its settings are HarnessC16Convert's subject
		verifrt.Assert("C16.down-threshold-kept", d.GetHAMTShardingSize() == threshold)
	}
	verifrt.Assert("C16.down-max-links-kept", d.GetMaxLinks() == maxLinks)
	verifrt.Reach("end")
}
