package ipns

import (
	"bytes"
	"crypto/rand"
	"encoding/binary"
	"errors"
	"io"
	"time"

	"github.com/ipfs/boxo/internal/verifrt"
	ipns_pb "github.com/ipfs/boxo/ipns/pb"
	"github.com/ipfs/boxo/path"
	"github.com/ipld/go-ipld-prime/datamodel"
	ic "github.com/libp2p/go-libp2p/core/crypto"
	icpb "github.com/libp2p/go-libp2p/core/crypto/pb"
	"github.com/libp2p/go-libp2p/core/peer"
	"google.golang.org/protobuf/proto"
)

// zz26ErrBadKey: the libp2p crypto package is opaque (never initialised) under the engine, so its error values are
// nil there; the key models use their own.
var zz26ErrBadKey = errors.New("zz26: bad key")

// =====================================================================================================
// Models (bound under the engine only; natively the real code runs)
// =====================================================================================================

// ---- keys and signatures (Dolev-Yao): key k signs data d as the token {k, D(d)} (+ padding); for the v2
// signature data "ipns-signature:"+doc, D is the first byte of doc (the document token). Key class: ids 0,1
// are small keys (inlined in the peer ID, like Ed25519/secp256k1), id 2 is a large key (RSA/ECDSA). ----

type zz26Pub struct{ id byte }

func (k *zz26Pub) Equals(o ic.Key) bool {
	p, ok := o.(*zz26Pub)
	return ok && p.id == k.id
}
func (k *zz26Pub) Raw() ([]byte, error) { return []byte{k.id}, nil }
func (k *zz26Pub) Type() icpb.KeyType   { return icpb.KeyType_Ed25519 }
func (k *zz26Pub) Verify(data, sig []byte) (bool, error) {
	if len(sig) < 2 || len(data) < 16 || string(data[:15]) != "ipns-signature:" {
		return false, nil
	}
	return (sig[0]^k.id)|(sig[1]^data[15]) == 0, nil
}

type zz26Priv struct{ id byte }

func (k *zz26Priv) Equals(o ic.Key) bool {
	p, ok := o.(*zz26Priv)
	return ok && p.id == k.id
}
func (k *zz26Priv) Raw() ([]byte, error) { return []byte{k.id}, nil }
func (k *zz26Priv) Type() icpb.KeyType   { return icpb.KeyType_Ed25519 }
func (k *zz26Priv) GetPublic() ic.PubKey { return &zz26Pub{id: k.id} }
func (k *zz26Priv) Sign(data []byte) ([]byte, error) {
	d := byte(0)
	if len(data) >= 16 && string(data[:15]) == "ipns-signature:" {
		d = data[15]
	}
	sig := []byte{k.id, d}
	if zz26RealSizes {
		sig = append(sig, make([]byte, 62)...) // an Ed25519 signature is 64 bytes
	}
	return sig, nil
}

// bound to ic.MarshalPublicKey
func zz26MarshalPublicKey(pk ic.PubKey) ([]byte, error) {
	return []byte{0x4b, pk.(*zz26Pub).id}, nil
}

// bound to ic.UnmarshalPublicKey
func zz26UnmarshalPublicKey(data []byte) (ic.PubKey, error) {
	if len(data) != 2 || data[0] != 0x4b || data[1] > 2 {
		return nil, zz26ErrBadKey
	}
	return &zz26Pub{id: data[1]}, nil
}

// bound to peer.IDFromPublicKey
func zz26IDFromPublicKey(pk ic.PubKey) (peer.ID, error) {
	return peer.ID(string([]byte{'I', 'D', pk.(*zz26Pub).id})), nil
}

// bound to (peer.ID).ExtractPublicKey
func zz26ExtractPublicKey(id peer.ID) (ic.PubKey, error) {
	s := string(id)
	if len(s) != 3 || s[0] != 'I' || s[1] != 'D' {
		return nil, zz26ErrBadKey
	}
	if s[2] <= 1 {
		return &zz26Pub{id: s[2]}, nil
	}
	if s[2] == 2 {
		return nil, peer.ErrNoPublicKey
	}
	return nil, zz26ErrBadKey
}

// ---- RFC3339 text: a 12-byte (sec,nsec) token ----

// bound to util.FormatRFC3339
func zz26FormatRFC3339(t time.Time) string {
	out := make([]byte, 12)
	if zz26RealSizes {
		out = make([]byte, 20) // "2100-01-01T00:00:00Z": whole seconds, 4-digit year
	}
	binary.BigEndian.PutUint64(out[0:8], uint64(t.Unix()))
	binary.BigEndian.PutUint32(out[8:12], uint32(t.Nanosecond()))
	return string(out)
}

// bound to util.ParseRFC3339
func zz26ParseRFC3339(s string) (time.Time, error) {
	b := []byte(s)
	if len(b) != 12 && len(b) != 20 {
		return time.Time{}, ErrInvalidValidity
	}
	sec := int64(binary.BigEndian.Uint64(b[0:8]))
	nsec := int64(binary.BigEndian.Uint32(b[8:12]))
	return time.Unix(sec, nsec).UTC(), nil
}

// ---- dag-cbor: opaque invertible codec: Encode emits a fresh token and remembers the node, Decode of that
// token returns an equal node ----

var zz26Docs []datamodel.Node

// bound to dagcbor.Encode
func zz26CborEncode(n datamodel.Node, w io.Writer) error {
	zz26Docs = append(zz26Docs, n)
	out := []byte{byte(len(zz26Docs)), 0xcb}
	if zz26RealSizes {
		out = append(out, make([]byte, zz26CborLen(n)-2)...)
	}
	_, err := w.Write(out)
	return err
}

// bound to dagcbor.Decode
func zz26CborDecode(na datamodel.NodeAssembler, r io.Reader) error {
	var tok [2]byte
	if _, err := io.ReadFull(r, tok[:]); err != nil {
		return err
	}
	if tok[1] != 0xcb || tok[0] == 0 || int(tok[0]) > len(zz26Docs) {
		return errors.New("zz26: not a document produced on this path")
	}
	return datamodel.Copy(zz26Docs[tok[0]-1], na)
}

// ---- protobuf: opaque invertible codec over the message struct ----

var zz26Msgs []*ipns_pb.IpnsRecord

// bound to proto.Marshal
func zz26ProtoMarshal(m proto.Message) ([]byte, error) {
	zz26Msgs = append(zz26Msgs, m.(*ipns_pb.IpnsRecord))
	out := []byte{byte(len(zz26Msgs)), 0x9b}
	if zz26RealSizes {
		out = append(out, make([]byte, zz26WireSize(m.(*ipns_pb.IpnsRecord))-2)...)
	}
	return out, nil
}

// bound to proto.Unmarshal
func zz26ProtoUnmarshal(b []byte, m proto.Message) error {
	if len(b) < 2 || (len(b) != 2 && !zz26RealSizes) || b[1] != 0x9b || b[0] == 0 || int(b[0]) > len(zz26Msgs) {
		return errors.New("zz26: not a message produced on this path")
	}
	src, dst := zz26Msgs[b[0]-1], m.(*ipns_pb.IpnsRecord)
	cp := func(x []byte) []byte {
		if x == nil {
			return nil
		}
		return append([]byte{}, x...)
	}
	dst.Value, dst.SignatureV1, dst.Validity = cp(src.Value), cp(src.SignatureV1), cp(src.Validity)
	dst.PubKey, dst.SignatureV2, dst.Data = cp(src.PubKey), cp(src.SignatureV2), cp(src.Data)
	if src.ValidityType != nil {
		v := *src.ValidityType
		dst.ValidityType = &v
	}
	if src.Sequence != nil {
		v := *src.Sequence
		dst.Sequence = &v
	}
	if src.Ttl != nil {
		v := *src.Ttl
		dst.Ttl = &v
	}
	return nil
}

// bound to proto.Size (small records only in this check)
func zz26ProtoSize(m proto.Message) int {
	if zz26RealSizes {
		return zz26WireSize(m.(*ipns_pb.IpnsRecord))
	}
	return 100
}

// zz26RealSizes (size-boundary entry only, all numbers concrete there): the codec models produce encodings of
// the real length, so that the size guards of Validate and UnmarshalRecord see what they see natively.
var zz26RealSizes bool

func zz26VarintLen(v uint64) int {
	n := 1
	for v >= 0x80 {
		v >>= 7
		n++
	}
	return n
}

// zz26WireSize: protobuf wire size of an IpnsRecord (all field numbers < 16: one tag byte each).
func zz26WireSize(m *ipns_pb.IpnsRecord) int {
	n := 0
	for _, b := range [][]byte{m.Value, m.SignatureV1, m.Validity, m.PubKey, m.SignatureV2, m.Data} {
		if b != nil {
			n += 1 + zz26VarintLen(uint64(len(b))) + len(b)
		}
	}
	if m.ValidityType != nil {
		n += 1 + zz26VarintLen(uint64(int64(*m.ValidityType)))
	}
	if m.Sequence != nil {
		n += 1 + zz26VarintLen(*m.Sequence)
	}
	if m.Ttl != nil {
		n += 1 + zz26VarintLen(*m.Ttl)
	}
	return n
}

func zz26CborHdr(v uint64) int {
	switch {
	case v < 24:
		return 1
	case v < 1<<8:
		return 2
	case v < 1<<16:
		return 3
	case v < 1<<32:
		return 5
	}
	return 9
}

// zz26CborLen: DAG-CBOR length of a flat map of scalars.
func zz26CborLen(n datamodel.Node) int {
	total := zz26CborHdr(uint64(n.Length()))
	for it := n.MapIterator(); !it.Done(); {
		k, v, err := it.Next()
		if err != nil {
			panic(err)
		}
		ks, _ := k.AsString()
		total += zz26CborHdr(uint64(len(ks))) + len(ks)
		switch v.Kind() {
		case datamodel.Kind_Bytes:
			b, _ := v.AsBytes()
			total += zz26CborHdr(uint64(len(b))) + len(b)
		case datamodel.Kind_String:
			x, _ := v.AsString()
			total += zz26CborHdr(uint64(len(x))) + len(x)
		case datamodel.Kind_Int:
			i, _ := v.AsInt()
			if i < 0 {
				i = -1 - i
			}
			total += zz26CborHdr(uint64(i))
		case datamodel.Kind_Bool:
			total++
		default:
			panic("zz26CborLen: unsupported kind")
		}
	}
	return total
}

// bound to proto.Uint64
func zz26ProtoUint64(v uint64) *uint64 { return &v }

// bound to fmt.Append (only used for the legacy v1 signature payload, which nothing verifies)
func zz26FmtAppend(b []byte, a ...any) []byte { return append(b, '0') }

// =====================================================================================================
// Native keys
// =====================================================================================================

var zz26Keys [4]ic.PrivKey

// zz26Key returns the signing key of class k: 0 Ed25519, 1 secp256k1 (both inlined in the name), 2 ECDSA,
// 3 RSA-2048 (both too large to inline). Under the engine classes 2 and 3 are the same model key.
func zz26Key(k int) ic.PrivKey {
	if verifrt.Symbolic() {
		id := byte(k)
		if id > 2 {
			id = 2
		}
		return &zz26Priv{id: id}
	}
	if zz26Keys[k] == nil {
		var sk ic.PrivKey
		var err error
		switch k {
		case 0:
			sk, _, err = ic.GenerateEd25519Key(rand.Reader)
		case 1:
			sk, _, err = ic.GenerateSecp256k1Key(rand.Reader)
		case 2:
			sk, _, err = ic.GenerateECDSAKeyPair(rand.Reader)
		default:
			sk, _, err = ic.GenerateRSAKeyPair(2048, rand.Reader)
		}
		if err != nil {
			panic(err)
		}
		zz26Keys[k] = sk
	}
	return zz26Keys[k]
}

const zz26MaxSec = 253402300799 // 9999-12-31T23:59:59Z

// =====================================================================================================
// Entry 1: NewRecord -> accessors, legacy fields, validation, marshal/unmarshal (numeric part)
// =====================================================================================================

func HarnessC26RoundTrip() {
	zz26Docs, zz26Msgs = nil, nil
	now := time.Now()

	keyClass := verifrt.NondetRange("keyClass", 0, verifrt.Param("KEYS", 3))
	sk := zz26Key(keyClass)
	large := keyClass >= 2

	vals := []string{"/ipfs/bafkqaaa", "/ipns/k51qzi5uqu5dgutdk6i1ynyzgkqngpha5xpgia3a5qqp4jsh0u4csozksxel2r/a/b"}
	value, err := path.NewPath(vals[verifrt.NondetRange("value", 0, 1)])
	if err != nil {
		panic(err)
	}

	seq := verifrt.NondetU64("seq")
	switch verifrt.NondetRange("seqClass", 0, 2) { // case split, so that the native witnesses cover each class
	case 0:
		verifrt.Assume(seq < 1<<32)
	case 1:
		verifrt.Assume(seq >= 1<<32)
		verifrt.Assume(seq < 1<<63)
	case 2:
		verifrt.Assume(seq >= 1<<63) // does not fit the CBOR int64 as a positive number
	}
	ttl := verifrt.NondetI64("ttl")
	verifrt.Assume(ttl >= 0)
	// expiry: at least one hour in the future (so the native clock agrees), at most year 9999
	// (relative to the clock reading, so that a witness means the same thing under the virtual and the real clock)
	delta := verifrt.NondetI64("delta")
	nsec := verifrt.NondetI64("nsec")
	verifrt.Assume(delta >= 3600)
	verifrt.Assume(delta <= zz26MaxSec-3000000000) // real clocks read < 3e9 s until 2065
	sec := now.Unix() + delta
	verifrt.Assume(nsec >= 0)
	verifrt.Assume(nsec < 1000000000)
	if verifrt.NondetRange("nsecClass", 0, 1) == 0 { // case split for the native witnesses (RFC3339Nano trims zeros)
		verifrt.Assume(nsec == 0)
	} else {
		verifrt.Assume(nsec > 0)
	}
	eol := time.Unix(sec, nsec)

	var opts []Option
	v1 := true
	switch verifrt.NondetRange("v1opt", 0, 2) { // default / explicit true / explicit false
	case 1:
		opts = append(opts, WithV1Compatibility(true))
	case 2:
		opts = append(opts, WithV1Compatibility(false))
		v1 = false
	}
	embed := large
	switch verifrt.NondetRange("embedopt", 0, 2) { // default / true / false
	case 1:
		opts = append(opts, WithPublicKey(true))
		embed = true
	case 2:
		opts = append(opts, WithPublicKey(false))
		embed = false
	}

	rec, err := NewRecord(sk, value, seq, eol, time.Duration(ttl), opts...)
	verifrt.Assert("C26.newrecord-succeeds", err == nil && rec != nil)

	check := func(r *Record, what string) {
		s, err := r.Sequence()
		verifrt.Assert("C26."+what+"-accessor-no-error", err == nil)
		verifrt.Assert("C26."+what+"-sequence", s == seq)
		t, err := r.TTL()
		verifrt.Assert("C26."+what+"-accessor-no-error", err == nil)
		verifrt.Assert("C26."+what+"-ttl", int64(t) == ttl)
		vt, err := r.ValidityType()
		verifrt.Assert("C26."+what+"-accessor-no-error", err == nil)
		verifrt.Assert("C26."+what+"-validitytype", vt == ValidityEOL)
		e, err := r.Validity()
		verifrt.Assert("C26."+what+"-accessor-no-error", err == nil)
		verifrt.Assert("C26."+what+"-validity-sec", e.Unix() == sec)
		verifrt.Assert("C26."+what+"-validity-nsec", int64(e.Nanosecond()) == nsec)
		p, err := r.Value()
		verifrt.Assert("C26."+what+"-accessor-no-error", err == nil)
		verifrt.Assert("C26."+what+"-value", p != nil && p.String() == value.String())

		// legacy fields present iff v1 compatibility, and equal to the inputs
		pb := r.pb
		if v1 {
			verifrt.Assert("C26."+what+"-legacy-present", pb.Value != nil && pb.Validity != nil && pb.ValidityType != nil && pb.Sequence != nil && pb.Ttl != nil && len(pb.SignatureV1) != 0)
			verifrt.Assert("C26."+what+"-legacy-value", string(pb.GetValue()) == value.String())
			verifrt.Assert("C26."+what+"-legacy-sequence", pb.GetSequence() == seq)
			verifrt.Assert("C26."+what+"-legacy-ttl", pb.GetTtl() == uint64(ttl))
			verifrt.Assert("C26."+what+"-legacy-validitytype", pb.GetValidityType() == ipns_pb.IpnsRecord_EOL)
			vb, err := r.getBytesValue(cborValidityKey)
			verifrt.Assert("C26."+what+"-accessor-no-error", err == nil)
			verifrt.Assert("C26."+what+"-legacy-validity", bytes.Equal(pb.GetValidity(), vb))
		} else {
			verifrt.Assert("C26."+what+"-legacy-absent", pb.Value == nil && pb.Validity == nil && pb.ValidityType == nil && pb.Sequence == nil && pb.Ttl == nil && pb.SignatureV1 == nil)
		}
		verifrt.Assert("C26."+what+"-has-sigv2-and-data", len(pb.GetSignatureV2()) != 0 && len(pb.GetData()) != 0)
		verifrt.Assert("C26."+what+"-pubkey-embedded-iff-requested", (len(pb.GetPubKey()) != 0) == embed)
		if embed {
			pk, err := r.PubKey()
			verifrt.Assert("C26."+what+"-accessor-no-error", err == nil)
			verifrt.Assert("C26."+what+"-pubkey", pk != nil && pk.Equals(sk.GetPublic()))
		}

		// validates against the key and against its name whenever the key can be found
		verifrt.Assert("C26."+what+"-validates-with-key", Validate(r, sk.GetPublic()) == nil)
		pid, err := peer.IDFromPublicKey(sk.GetPublic())
		if err != nil {
			panic(err)
		}
		errN := ValidateWithName(r, NameFromPeer(pid))
		if embed || !large {
			verifrt.Assert("C26."+what+"-validates-with-name", errN == nil)
		}
	}
	check(rec, "created")
	verifrt.Observe("seq", seq)
	verifrt.Observe("ttl", ttl)
	if e, err := rec.Validity(); err == nil {
		// natively this goes through the real RFC3339Nano formatter and parser
		verifrt.Observe("eolSecAfterNow", e.Unix()-now.Unix())
		verifrt.Observe("eolNsec", e.Nanosecond())
	}

	enc, err := MarshalRecord(rec)
	verifrt.Assert("C26.marshal-succeeds", err == nil)
	rec2, err := UnmarshalRecord(enc)
	verifrt.Assert("C26.unmarshal-succeeds", err == nil && rec2 != nil)
	check(rec2, "decoded")
	verifrt.Reach("end")
}

// =====================================================================================================
// Entry 2: metadata keys and value types
// =====================================================================================================

var zz26MetaKeys = []string{"_a", "b", "_long-metadata-key", "", cborValueKey, cborValidityKey, cborValidityTypeKey, cborSequenceKey, cborTTLKey}

const zz26ValidKeys = 3 // the first three keys of zz26MetaKeys are acceptable

type zz26Meta struct {
	key   string
	typ   int // 0 string 1 []byte 2 int64 3 int 4 bool 5 nil 6 uint8 (unsupported) 7 []string (unsupported)
	s     string
	b     []byte
	i     int64
	bo    bool
	valid bool
}

func zz26MetaValue(m *zz26Meta) any {
	switch m.typ {
	case 0:
		return m.s
	case 1:
		return m.b
	case 2:
		return m.i
	case 3:
		return int(m.i)
	case 4:
		return m.bo
	case 5:
		return nil
	case 6:
		return uint8(m.i)
	default:
		return []string{m.s}
	}
}

func zz26NondetMeta(maxKey, maxTyp int) *zz26Meta {
	m := &zz26Meta{}
	k := verifrt.NondetRange("metaKey", 0, maxKey)
	m.key = zz26MetaKeys[k]
	m.typ = verifrt.NondetRange("metaType", 0, maxTyp)
	sb := verifrt.NondetBytes("metaS", 2)
	for i := range sb {
		verifrt.Assume(sb[i] < 0x80) // DAG-CBOR strings are UTF-8
	}
	m.s = string(sb)
	m.b = verifrt.NondetBytes("metaB", 2)
	m.i = verifrt.NondetI64("metaI")
	m.bo = verifrt.NondetBool("metaBool")
	m.valid = k < zz26ValidKeys && m.typ <= 4
	return m
}

func zz26CheckMeta(r *Record, m *zz26Meta, what string) {
	verifrt.Assert("C26."+what+"-metadata-exists", r.MetadataExists(m.key))
	mv, err := r.Metadata(m.key)
	verifrt.Assert("C26."+what+"-metadata-found", err == nil)
	switch m.typ {
	case 0:
		verifrt.Assert("C26."+what+"-metadata-kind", mv.Kind() == MetadataKindString)
		v, err := mv.AsString()
		verifrt.Assert("C26."+what+"-metadata-value", err == nil && v == m.s)
	case 1:
		verifrt.Assert("C26."+what+"-metadata-kind", mv.Kind() == MetadataKindBytes)
		v, err := mv.AsBytes()
		verifrt.Assert("C26."+what+"-metadata-value", err == nil && string(v) == string(m.b))
	case 2, 3:
		verifrt.Assert("C26."+what+"-metadata-kind", mv.Kind() == MetadataKindInt)
		v, err := mv.AsInt()
		verifrt.Assert("C26."+what+"-metadata-value", err == nil && v == m.i)
	case 4:
		verifrt.Assert("C26."+what+"-metadata-kind", mv.Kind() == MetadataKindBool)
		v, err := mv.AsBool()
		verifrt.Assert("C26."+what+"-metadata-value", err == nil && v == m.bo)
	}
}

func HarnessC26Metadata() {
	zz26Docs, zz26Msgs = nil, nil
	now := time.Now()
	sk := zz26Key(0)
	value, err := path.NewPath("/ipfs/bafkqaaa")
	if err != nil {
		panic(err)
	}
	seq := verifrt.NondetU64("seq")
	ttl := verifrt.NondetI64("ttl")
	verifrt.Assume(ttl >= 0)
	eol := time.Unix(now.Unix()+86400, 5)

	n := verifrt.NondetRange("entries", 1, verifrt.Param("M", 2))
	var metas []*zz26Meta
	md := map[string]any{}
	allValid := true
	if n == 1 {
		metas = append(metas, zz26NondetMeta(len(zz26MetaKeys)-1, 7))
	} else {
		// several entries: distinct acceptable keys, at most the last entry may be unacceptable
		for i := 0; i < n; i++ {
			var m *zz26Meta
			if i == n-1 {
				m = zz26NondetMeta(len(zz26MetaKeys)-1, 5)
			} else {
				m = zz26NondetMeta(zz26ValidKeys-1, 4)
			}
			for _, o := range metas {
				verifrt.Assume(o.key != m.key)
			}
			metas = append(metas, m)
		}
	}
	for _, m := range metas {
		md[m.key] = zz26MetaValue(m)
		allValid = allValid && m.valid
	}

	rec, err := NewRecord(sk, value, seq, eol, time.Duration(ttl), WithMetadata(md))
	verifrt.Observe("created", err == nil)
	if !allValid {
		verifrt.Assert("C26.invalid-metadata-rejected", err != nil && rec == nil)
		verifrt.Reach("rejected")
		verifrt.Reach("end")
		return
	}
	verifrt.Assert("C26.valid-metadata-accepted", err == nil && rec != nil)

	check := func(r *Record, what string) {
		for _, m := range metas {
			zz26CheckMeta(r, m, what)
		}
		// the iterator yields exactly the custom entries
		cnt := 0
		for k := range r.MetadataEntries() {
			found := false
			for _, m := range metas {
				found = found || m.key == k
			}
			verifrt.Assert("C26."+what+"-metadata-entries-only-custom", found)
			cnt++
		}
		verifrt.Assert("C26."+what+"-metadata-entries-complete", cnt == len(metas))
		// reserved names are never served as metadata, and the standard fields are unaffected
		_, err := r.Metadata(cborSequenceKey)
		verifrt.Assert("C26."+what+"-reserved-not-metadata", errors.Is(err, ErrMetadataConflict) && !r.MetadataExists(cborSequenceKey))
		s, err := r.Sequence()
		verifrt.Assert("C26."+what+"-sequence", err == nil && s == seq)
		t, err := r.TTL()
		verifrt.Assert("C26."+what+"-ttl", err == nil && int64(t) == ttl)
		p, err := r.Value()
		verifrt.Assert("C26."+what+"-value", err == nil && p.String() == value.String())
		verifrt.Assert("C26."+what+"-validates-with-key", Validate(r, sk.GetPublic()) == nil)
	}
	check(rec, "created")
	enc, err := MarshalRecord(rec)
	verifrt.Assert("C26.marshal-succeeds", err == nil)
	rec2, err := UnmarshalRecord(enc)
	verifrt.Assert("C26.unmarshal-succeeds", err == nil && rec2 != nil)
	check(rec2, "decoded")
	verifrt.Reach("end")
}

// =====================================================================================================
// Entry 3: records at the size limit: creation, validation and the marshal/unmarshal round trip agree
// =====================================================================================================

func zz26SizeOf(r *Record) int {
	if verifrt.Symbolic() {
		return zz26WireSize(r.pb)
	}
	return proto.Size(r.pb)
}

func HarnessC26SizeBoundary() {
	zz26Docs, zz26Msgs = nil, nil
	zz26RealSizes = true
	defer func() { zz26RealSizes = false }()
	sk := zz26Key(0)
	value, err := path.NewPath("/ipfs/bafkqaaa")
	if err != nil {
		panic(err)
	}
	const seq, ttl = uint64(1), time.Duration(0)
	eol := time.Unix(4102444800, 0) // 2100-01-01T00:00:00Z
	v1 := verifrt.NondetRange("v1compat", 0, 1) == 1
	mk := func(pad int) *Record {
		r, err := NewRecord(sk, value, seq, eol, ttl, WithV1Compatibility(v1), WithMetadata(map[string]any{"_pad": make([]byte, pad)}))
		verifrt.Assert("C26.newrecord-succeeds", err == nil && r != nil)
		return r
	}
	// the encoded size is linear in the padding between 256 and 16000 bytes: measure once, then hit the target
	d := verifrt.NondetRange("d", -2, 2)
	probe := zz26SizeOf(mk(5000))
	rec := mk(5000 + MaxRecordSize + d - probe)
	size := zz26SizeOf(rec)
	verifrt.Observe("size", size)
	verifrt.Assert("C26.boundary-harness-hits-target", size == MaxRecordSize+d)

	vErr := Validate(rec, sk.GetPublic())
	verifrt.Observe("validates", vErr == nil)
	enc, err := MarshalRecord(rec)
	verifrt.Assert("C26.marshal-succeeds", err == nil)
	verifrt.Assert("C26.boundary-encoding-has-that-size", len(enc) == size)
	rec2, uErr := UnmarshalRecord(enc)
	verifrt.Observe("decodes", uErr == nil)
	if size <= MaxRecordSize {
		verifrt.Assert("C26.boundary-record-within-limit-validates", vErr == nil)
		verifrt.Assert("C26.boundary-record-within-limit-decodes", uErr == nil && rec2 != nil)
	}
	// the two size guards draw the same line
	verifrt.Assert("C26.boundary-decode-agrees-with-validate", (uErr == nil) == (vErr == nil))
	if uErr == nil {
		s, err := rec2.Sequence()
		verifrt.Assert("C26.decoded-sequence", err == nil && s == seq)
		p, err := rec2.Value()
		verifrt.Assert("C26.decoded-value", err == nil && p.String() == value.String())
		mv, err := rec2.Metadata("_pad")
		verifrt.Assert("C26.decoded-metadata-found", err == nil)
		b, err := mv.AsBytes()
		verifrt.Assert("C26.decoded-metadata-value", err == nil && len(b) == 5000+MaxRecordSize+d-probe)
		verifrt.Assert("C26.decoded-validates-with-key", Validate(rec2, sk.GetPublic()) == nil)
		verifrt.Reach("decoded")
	}
	verifrt.Reach("end")
}
