package blockservice

import (
	"errors"

	"github.com/ipfs/boxo/internal/verifrt"
	"github.com/ipfs/boxo/verifcid"
	cid "github.com/ipfs/go-cid"
	mh "github.com/multiformats/go-multihash"
)

// ---------------------------------------------------------------------------------------------------------
// Reference rule, written from the property text and the multicodec table (numeric codes, not the go-multihash
// constants the implementation switches on).
// ---------------------------------------------------------------------------------------------------------

// zzRefDefaultAllowed: the hash functions the default allowlist documents as allowed.
func zzRefDefaultAllowed(code uint64) bool {
	// written with integer | so that the oracle introduces no control flow
	var ok uint64
	for _, c := range []uint64{
		0x00, // identity
		0x11, // sha1
		0x12, // sha2-256
		0x13, // sha2-512
		0x14, // sha3-512
		0x15, // sha3-384
		0x16, // sha3-256
		0x17, // sha3-224
		0x19, // shake-256
		0x1a, // keccak-224
		0x1b, // keccak-256
		0x1c, // keccak-384
		0x1d, // keccak-512
		0x1e, // blake3
		0x56, // dbl-sha2-256
	} {
		ok |= zzB(code == c)
	}
	// blake2b-160 .. blake2b-512  (blake2b-8 = 0xb201, one code per output byte)
	ok |= zzB(code >= 0xb201+19) & zzB(code <= 0xb240)
	// blake2s-160 .. blake2s-256  (blake2s-8 = 0xb241)
	ok |= zzB(code >= 0xb241+19) & zzB(code <= 0xb260)
	return ok != 0
}

func zzB(b bool) uint64 {
	if b {
		return 1
	}
	return 0
}

func zzRefDefaultMin(code uint64) int {
	if code == 0x00 {
		return 0
	}
	return 20
}

func zzRefDefaultMax(code uint64) int { return 128 }

// zzParent is a caller-supplied Allowlist with its own limits (checks that ValidateCid and the overriding
// allowlist take the limits from the configured list and not from constants).
type zzParent struct {
	code     uint64
	min, max int
}

func (p zzParent) IsAllowed(code uint64) bool   { return code == p.code }
func (p zzParent) MinDigestSize(uint64) int     { return p.min }
func (p zzParent) MaxDigestSize(uint64) int     { return p.max }
func (p zzParent) refAllowed(code uint64) bool  { return code == p.code }

// ---------------------------------------------------------------------------------------------------------
// CID construction. Under the engine (cid.Cid).Prefix is bound to zzPrefix, which reports the symbolic code and
// digest length; natively the CID is really built with mh.Encode (no hashing) and the real Prefix parses it.
// ---------------------------------------------------------------------------------------------------------

var (
	zzStubOn   bool
	zzStubCode uint64
	zzStubLen  int
)

func zzPrefix(c cid.Cid) cid.Prefix {
	if zzStubOn {
		return cid.Prefix{Version: 1, Codec: cid.Raw, MhType: zzStubCode, MhLength: zzStubLen}
	}
	return c.Prefix()
}

func zzFixedCid() cid.Cid {
	m, err := mh.Encode(make([]byte, 32), mh.SHA2_256)
	if err != nil {
		panic(err)
	}
	return cid.NewCidV1(cid.Raw, m)
}

func zzCidFor(code uint64, n int) cid.Cid {
	if verifrt.Symbolic() {
		zzStubOn, zzStubCode, zzStubLen = true, code, n
		return zzFixedCid()
	}
	m, err := mh.Encode(make([]byte, n), code)
	if err != nil {
		panic(err)
	}
	return cid.NewCidV1(cid.Raw, m)
}

// zzJudge compares ValidateCid's verdict with the reference rule (allowed, min, max).
func zzJudge(err error, allowed bool, n, min, max int) {
	verifrt.Observe("accepted", err == nil)
	if !allowed {
		verifrt.Assert("C04.disallowed-hash-rejected", err != nil)
		verifrt.Assert("C04.disallowed-hash-error-class", errors.Is(err, verifcid.ErrPossiblyInsecureHashFunction))
		return
	}
	if n < min {
		verifrt.Assert("C04.short-digest-rejected", err != nil)
		verifrt.Assert("C04.short-digest-error-class", errors.Is(err, verifcid.ErrDigestTooSmall))
		return
	}
	if n > max {
		verifrt.Assert("C04.long-digest-rejected", err != nil)
		verifrt.Assert("C04.long-digest-error-class", errors.Is(err, verifcid.ErrDigestTooLarge))
		return
	}
	verifrt.Assert("C04.valid-cid-accepted", err == nil)
}

// HarnessC04Default: default allowlist, every multihash code (u64) and every digest length 0..LMAX.
func HarnessC04Default() {
	code := verifrt.NondetU64("code")
	n := verifrt.NondetInt("len")
	verifrt.Assume(n >= 0)
	verifrt.Assume(n <= verifrt.Param("LMAX", 300))
	c := zzCidFor(code, n)
	err := verifcid.ValidateCid(verifcid.DefaultAllowlist, c)
	zzJudge(err, zzRefDefaultAllowed(code), n, zzRefDefaultMin(code), zzRefDefaultMax(code))
	verifrt.Reach("end")
}

// HarnessC04Custom: allowlists built by NewAllowlist / NewOverridingAllowlist from a map with two symbolic
// (code, bool) entries; parent ∈ {none, nil, default, caller-supplied list with its own limits, another
// NewAllowlist}.
func HarnessC04Custom() {
	code := verifrt.NondetU64("code")
	n := verifrt.NondetInt("len")
	verifrt.Assume(n >= 0)
	verifrt.Assume(n <= verifrt.Param("LMAX", 300))

	k1, k2 := verifrt.NondetU64("k1"), verifrt.NondetU64("k2")
	v1, v2 := verifrt.NondetBool("v1"), verifrt.NondetBool("v2")
	set := map[uint64]bool{}
	nk := verifrt.NondetRange("nkeys", 0, 2)
	if nk >= 1 {
		set[k1] = v1
	}
	if nk >= 2 {
		verifrt.Assume(k1 != k2)
		set[k2] = v2
	}
	// reference lookup in the set
	inSet, setVal := false, false
	if nk >= 1 && code == k1 {
		inSet, setVal = true, v1
	}
	if nk >= 2 && code == k2 {
		inSet, setVal = true, v2
	}

	var al verifcid.Allowlist
	var allowed bool
	var min, max int
	switch verifrt.NondetRange("parent", 0, 4) {
	case 0: // NewAllowlist: unknown codes are rejected, default limits
		al = verifcid.NewAllowlist(set)
		allowed = inSet && setVal
		min, max = zzRefDefaultMin(code), zzRefDefaultMax(code)
	case 1: // overriding with a nil parent behaves like NewAllowlist
		al = verifcid.NewOverridingAllowlist(nil, set)
		allowed = inSet && setVal
		min, max = zzRefDefaultMin(code), zzRefDefaultMax(code)
	case 2: // overriding the default list
		al = verifcid.NewOverridingAllowlist(verifcid.DefaultAllowlist, set)
		allowed = zzRefDefaultAllowed(code)
		if inSet {
			allowed = setVal
		}
		min, max = zzRefDefaultMin(code), zzRefDefaultMax(code)
	case 3: // overriding a caller-supplied list with its own limits
		p := zzParent{code: verifrt.NondetU64("pcode"), min: verifrt.NondetInt("pmin"), max: verifrt.NondetInt("pmax")}
		al = verifcid.NewOverridingAllowlist(p, set)
		allowed = p.refAllowed(code)
		if inSet {
			allowed = setVal
		}
		min, max = p.min, p.max
	case 4: // two levels: overriding a NewAllowlist
		pk, pv := verifrt.NondetU64("pk"), verifrt.NondetBool("pv")
		al = verifcid.NewOverridingAllowlist(verifcid.NewAllowlist(map[uint64]bool{pk: pv}), set)
		allowed = code == pk && pv
		if inSet {
			allowed = setVal
		}
		min, max = zzRefDefaultMin(code), zzRefDefaultMax(code)
	}
	c := zzCidFor(code, n)
	err := verifcid.ValidateCid(al, c)
	zzJudge(err, allowed, n, min, max)
	verifrt.Reach("end")
}

// HarnessC04Direct: a caller-supplied Allowlist used directly: ValidateCid applies exactly its answers.
func HarnessC04Direct() {
	code := verifrt.NondetU64("code")
	n := verifrt.NondetInt("len")
	verifrt.Assume(n >= 0)
	verifrt.Assume(n <= verifrt.Param("LMAX", 300))
	p := zzParent{code: verifrt.NondetU64("pcode"), min: verifrt.NondetInt("pmin"), max: verifrt.NondetInt("pmax")}
	err := verifcid.ValidateCid(p, zzCidFor(code, n))
	zzJudge(err, p.refAllowed(code), n, p.min, p.max)
	verifrt.Reach("end")
}

// HarnessC04RealCid: no Prefix stub — the CID is really built (mh.Encode + NewCidV1/NewCidV0, no hashing) with a
// symbolic multihash code and the digest-length classes around every limit, and go-cid's Prefix parses it.
func HarnessC04RealCid() {
	zzStubOn = false
	classes := []int{0, 19, 20, 128, 129, 1, 21, 32, 64, 127, 256}
	n := classes[verifrt.NondetRange("lenclass", 0, verifrt.Param("NCLASS", len(classes))-1)]
	code := verifrt.NondetU64("code")
	if bits := verifrt.Param("CODEBITS", 64); bits < 64 {
		verifrt.Assume(code < 1<<uint(bits))
	}
	form := verifrt.NondetRange("form", 0, 2) // 0: CIDv1 raw, 1: CIDv1 dag-pb, 2: CIDv0
	digest := make([]byte, n)                 // the digest bytes play no role in validation
	var c cid.Cid
	switch form {
	case 0, 1:
		m, err := mh.Encode(digest, code)
		if err != nil {
			panic(err)
		}
		codec := uint64(cid.Raw)
		if form == 1 {
			codec = cid.DagProtobuf
		}
		c = cid.NewCidV1(codec, m)
	case 2:
		verifrt.Assume(n == 32)
		verifrt.Assume(code == 0x12)
		m, err := mh.Encode(digest, 0x12)
		if err != nil {
			panic(err)
		}
		c = cid.NewCidV0(m)
	}
	err := verifcid.ValidateCid(verifcid.DefaultAllowlist, c)
	zzJudge(err, zzRefDefaultAllowed(code), n, zzRefDefaultMin(code), zzRefDefaultMax(code))
	verifrt.Reach("end")
}
