package blockservice

import (
	"context"

	"github.com/ipfs/boxo/exchange"
	"github.com/ipfs/boxo/internal/verifrt"
	"github.com/ipfs/boxo/verifcid"
	blocks "github.com/ipfs/go-block-format"
	cid "github.com/ipfs/go-cid"
)

// Pool construction for the service harnesses.
//
// mode 0 ("flags"): the service is configured (WithAllowlist) with a custom allowlist {sha2-256: f0, sha2-512: f1,
//   sha3-256: f2} whose three verdicts are symbolic bools; slot i uses code i%3 with a 32-byte digest. Every
//   validity pattern of a batch is then one solver-decided branch inside the real filter code.
// mode 1 ("default"): default allowlist; all slots are valid sha2-256 CIDs except slot `bad`, which is a really
//   invalid CID of one of three kinds (19-byte sha2-256 digest, shake-128, 129-byte identity).
func zzBuildPool(n int) (*zzWorld, []Option) {
	zzStubOn = false
	w := &zzWorld{}
	var opts []Option
	if verifrt.NondetRange("mode", 0, 1) == 0 {
		codes := []uint64{0x12, 0x13, 0x16}
		f := []bool{verifrt.NondetBool("allow"), verifrt.NondetBool("allow"), verifrt.NondetBool("allow")}
		for i := 0; i < n; i++ {
			w.pool = append(w.pool, &zzSlot{c: zzMkCid(cid.Raw, codes[i%3], 32, byte(16*i)), valid: f[i%3]})
		}
		opts = append(opts, WithAllowlist(verifcid.NewAllowlist(map[uint64]bool{0x12: f[0], 0x13: f[1], 0x16: f[2]})))
	} else {
		bad := verifrt.NondetRange("bad", -1, n-1)
		kind := 0
		if bad >= 0 {
			kind = verifrt.NondetRange("badkind", 0, 2)
		}
		for i := 0; i < n; i++ {
			s := &zzSlot{c: zzMkCid(cid.DagProtobuf, 0x12, 32, byte(16*i)), valid: true}
			if i == bad {
				s.valid = false
				switch kind {
				case 0:
					s.c = zzMkCid(cid.Raw, 0x12, 19, byte(16*i))
				case 1:
					s.c = zzMkCid(cid.Raw, 0x18, 32, byte(16*i))
				case 2:
					s.c = zzMkCid(cid.Raw, 0x00, 129, byte(16*i))
				}
			}
			w.pool = append(w.pool, s)
		}
	}
	for i, s := range w.pool {
		s.data = []byte{byte(i), 0xAA}
		s.local = verifrt.NondetBool("local")
		s.avail = verifrt.NondetBool("avail")
	}
	return w, opts
}

// zzMkService builds the block service over the stubs. exch: 0 = no exchange, 1 = plain exchange,
// 2 = session-capable exchange.
func zzMkService(w *zzWorld, exch int, opts []Option) (BlockService, *zzBS) {
	bs := &zzBS{w: w}
	var ex exchange.Interface
	switch exch {
	case 1:
		ex = &zzEx{zzFetch: zzFetch{w: w, who: "ex", deliver: zzHonest(w)}}
	case 2:
		ex = &zzSesEx{zzEx: zzEx{zzFetch: zzFetch{w: w, who: "ex", deliver: zzHonest(w)}}}
	}
	return New(bs, ex, opts...), bs
}

// zzNoRejectedInLog: no blockstore or exchange operation was ever issued for a CID the validator rejects.
func zzNoRejectedInLog(w *zzWorld) {
	for _, o := range w.log {
		if o.slot < 0 {
			verifrt.Assert("C04.only-pool-cids-touched", false)
			continue
		}
		ok := w.pool[o.slot].valid
		switch {
		case o.who == "bs" && o.op == "put":
			verifrt.Assert("C04.rejected-cid-never-stored", ok)
		case o.who == "bs":
			verifrt.Assert("C04.rejected-cid-never-looked-up", ok)
		case o.op == "notify":
			verifrt.Assert("C04.rejected-cid-never-announced", ok)
		default:
			verifrt.Assert("C04.rejected-cid-never-fetched", ok)
		}
	}
}

// HarnessC04SvcAdd: AddBlock / AddBlocks with every validity pattern (mode 0) or a really invalid block at each
// position (mode 1).
func HarnessC04SvcAdd() {
	ctx := context.Background()
	n := verifrt.NondetRange("n", 1, verifrt.Param("N", 3))
	w, opts := zzBuildPool(n)
	if verifrt.NondetBool("writeThrough") {
		opts = append(opts, WriteThrough(true))
	}
	svc, _ := zzMkService(w, verifrt.NondetRange("exch", 0, 1), opts)
	localBefore := make([]bool, n)
	allValidU := uint64(1)
	for i, s := range w.pool {
		localBefore[i] = s.local
		allValidU &= zzB(s.valid)
	}
	allValid := allValidU != 0

	var err error
	if n == 1 && verifrt.NondetBool("single") {
		err = svc.AddBlock(ctx, w.block(0))
	} else {
		bl := make([]blocks.Block, n)
		for i := range bl {
			bl[i] = w.block(i)
		}
		err = svc.AddBlocks(ctx, bl)
	}
	verifrt.Observe("add.ok", err == nil)
	zzNoRejectedInLog(w)
	if allValid {
		verifrt.Assert("C04.add-valid-succeeds", err == nil)
		for _, s := range w.pool {
			verifrt.Assert("C04.add-valid-stored", s.local)
		}
	} else {
		verifrt.Assert("C04.add-rejected-reports-error", err != nil)
		for i, s := range w.pool {
			if !s.valid {
				verifrt.Assert("C04.add-rejected-not-in-store", s.local == localBefore[i])
			}
		}
	}
	verifrt.Reach("end")
}

// zzGetter picks the route to the block getter: 0 = the service itself, 1 = NewSession(ctx, svc),
// 2 = the service with a session embedded in the context (ContextWithSession).
func zzGetter(ctx context.Context, svc BlockService, route int) (context.Context, BlockGetter) {
	switch route {
	case 1:
		return ctx, NewSession(ctx, svc)
	case 2:
		return ContextWithSession(ctx, svc), svc
	}
	return ctx, svc
}

// HarnessC04SvcGetBlock: GetBlock of a valid or rejected CID through the service, a session, an embedded session;
// local hit / exchange fall-back / no exchange.
func HarnessC04SvcGetBlock() {
	w, opts := zzBuildPool(1)
	svc, _ := zzMkService(w, verifrt.NondetRange("exch", 0, 2), opts)
	ctx, g := zzGetter(context.Background(), svc, verifrt.NondetRange("route", 0, 2))
	s := w.pool[0]
	valid, local, avail := s.valid, s.local, s.avail

	blk, err := g.GetBlock(ctx, s.c)
	verifrt.Observe("get.ok", err == nil)
	zzNoRejectedInLog(w)
	if !valid {
		verifrt.Assert("C04.get-rejected-reports-error", err != nil)
		verifrt.Assert("C04.get-rejected-returns-nothing", blk == nil)
		verifrt.Assert("C04.get-rejected-touches-nothing", len(w.log) == 0)
	} else if local {
		verifrt.Assert("C04.get-valid-local-succeeds", err == nil && blk != nil && blk.Cid().Equals(s.c))
	} else if avail && svc.Exchange() != nil {
		verifrt.Assert("C04.get-valid-remote-succeeds", err == nil && blk != nil && blk.Cid().Equals(s.c))
	} else {
		verifrt.Assert("C04.get-valid-missing-fails", err != nil && blk == nil)
	}
	verifrt.Reach("end")
}

// HarnessC04SvcGetBlocks: GetBlocks over n keys (slot i at position i, optionally the last key repeating the
// first) through the three routes; the filter (lastAllValidIndex code) must drop exactly the rejected CIDs.
func HarnessC04SvcGetBlocks() {
	n := verifrt.NondetRange("n", 1, verifrt.Param("N", 3))
	w, opts := zzBuildPool(n)
	svc, _ := zzMkService(w, verifrt.NondetRange("exch", 0, 2), opts)
	ctx, g := zzGetter(context.Background(), svc, verifrt.NondetRange("route", 0, 2))
	ks := make([]cid.Cid, n)
	for i := range ks {
		ks[i] = w.pool[i].c
	}
	if n >= 2 && verifrt.NondetBool("dup") {
		ks = append(ks, w.pool[0].c)
	}
	orig := append([]cid.Cid(nil), ks...)
	valid := make([]bool, n)
	reach := make([]uint64, n) // obtainable: local, or deliverable by an exchange
	for i, s := range w.pool {
		valid[i] = s.valid
		reach[i] = zzB(s.local) | (zzB(s.avail) & zzB(svc.Exchange() != nil))
	}

	got := make([]int, n)
	for b := range g.GetBlocks(ctx, ks) {
		i := w.find(b.Cid())
		if i < 0 {
			verifrt.Assert("C04.getblocks-emits-pool-blocks", false)
			continue
		}
		got[i]++
		verifrt.Assert("C04.getblocks-never-emits-rejected", valid[i])
	}
	zzNoRejectedInLog(w)
	for i := range got {
		verifrt.Observe("got", got[i])
		verifrt.Assert("C04.getblocks-valid-key-not-dropped", zzB(valid[i])&reach[i]&^zzB(got[i] >= 1) == 0)
	}
	for i := range orig {
		verifrt.Assert("C04.getblocks-caller-slice-untouched", ks[i].Equals(orig[i]))
	}
	verifrt.Reach("end")
}
