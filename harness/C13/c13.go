package walker

import (
	"context"
	"errors"

	bbloom "github.com/ipfs/bbloom"
	"github.com/ipfs/boxo/internal/verifrt"
	"github.com/ipfs/boxo/ipld/unixfs"
	pb "github.com/ipfs/boxo/ipld/unixfs/pb"
	cid "github.com/ipfs/go-cid"
	ipld "github.com/ipld/go-ipld-prime"
	mh "github.com/multiformats/go-multihash"
)

// ---------------------------------------------------------------------------------------------------
// Pool DAG for the walker: node i links to node j only for i < j. Symbolic: which edges exist, the link order,
// which nodes are identity-CID nodes, by which alias (CIDv0 / CIDv1 of one multihash) a link names its target,
// which blocks are local, which fetches fail, the UnixFS entity type of each node, when emit stops the walk, and
// the root of a second walk sharing the tracker.
// ---------------------------------------------------------------------------------------------------

const zzvMaxN = 5

const (
	zzvFormV1 = 0 // CIDv1 dag-pb sha2-256
	zzvFormV0 = 1 // CIDv0 of the same multihash
	zzvFormID = 2 // identity multihash (content inline)
)

type zzvFeatures struct {
	ident, alias, local, ferr, stop, two, entity, dup bool
}

type zzvDag struct {
	n     int
	f     zzvFeatures
	forms [zzvMaxN][3]cid.Cid
	idx   map[cid.Cid]int // CID (any form) -> node*4+form
	// symbolic inputs and their concrete caches (0 = not yet decided)
	edge   [zzvMaxN][zzvMaxN]bool
	ek     [zzvMaxN][zzvMaxN]int8
	alias  [zzvMaxN][zzvMaxN]bool
	ak     [zzvMaxN][zzvMaxN]int8
	ident  [zzvMaxN]bool
	ik     [zzvMaxN]int8
	local  [zzvMaxN]uint8 // 0 local, 1 not local, 2 locality check fails
	lk     [zzvMaxN]int8
	ferr   [zzvMaxN]bool
	fk     [zzvMaxN]int8
	etype  [zzvMaxN]uint8 // EntityType
	tk     [zzvMaxN]int8
	dupl   [zzvMaxN]bool // the node's first link is repeated at the end of its link list ([X, Y, X])
	dk     [zzvMaxN]int8
	rev    bool
	stopAt int  // emit answers false at the stopAt-th emission (0 = never)
	cancel bool // ... or, instead, cancels the walk's context there and answers true
	// logs
	fetched  []int
	locCalls []int
	alien    int
}

func zzvDigest(i int) []byte {
	d := make([]byte, 32)
	d[0] = byte(i + 1)
	d[31] = 0xc1
	return d
}

func zzvNewDag(n int, f zzvFeatures) *zzvDag {
	d := &zzvDag{n: n, f: f, idx: map[cid.Cid]int{}}
	for i := 0; i < n; i++ {
		m, err := mh.Encode(zzvDigest(i), mh.SHA2_256)
		if err != nil {
			panic(err)
		}
		idm, err := mh.Encode([]byte{0xa0, byte(i)}, mh.IDENTITY)
		if err != nil {
			panic(err)
		}
		d.forms[i][zzvFormV1] = cid.NewCidV1(cid.DagProtobuf, m)
		d.forms[i][zzvFormV0] = cid.NewCidV0(m)
		d.forms[i][zzvFormID] = cid.NewCidV1(cid.Raw, idm)
		for k := 0; k < 3; k++ {
			d.idx[d.forms[i][k]] = i*4 + k
		}
		d.tk[i] = -1
	}
	for i := 0; i < n; i++ {
		for j := i + 1; j < n; j++ {
			d.edge[i][j] = verifrt.NondetBool("edge")
			if f.alias {
				d.alias[i][j] = verifrt.NondetBool("alias")
			} else {
				d.ak[i][j] = 2
			}
		}
		if f.ident {
			d.ident[i] = verifrt.NondetBool("ident")
		} else {
			d.ik[i] = 2
		}
		if f.local {
			l := verifrt.NondetU8("local")
			verifrt.Assume(l <= 2)
			d.local[i] = l
			d.lk[i] = -1
		}
		if f.ferr {
			d.ferr[i] = verifrt.NondetBool("ferr")
		} else {
			d.fk[i] = 2
		}
		if f.dup {
			d.dupl[i] = verifrt.NondetBool("dupLink")
		} else {
			d.dk[i] = 2
		}
		if f.entity {
			t := verifrt.NondetU8("etype")
			verifrt.Assume(t <= uint8(EntitySymlink))
			d.etype[i] = t
		} else {
			d.tk[i] = int8(EntityUnknown)
		}
	}
	d.rev = verifrt.NondetBool("reverseLinks")
	if f.stop {
		d.stopAt = verifrt.NondetRange("stopAt", 0, n)
		if d.stopAt != 0 {
			d.cancel = verifrt.NondetBool("stopByCancel")
		}
	}
	return d
}

func zzvBit(sym bool, cache *int8) bool {
	switch *cache {
	case 1:
		return true
	case 2:
		return false
	}
	if sym {
		*cache = 1
		return true
	}
	*cache = 2
	return false
}

func (d *zzvDag) has(i, j int) bool     { return zzvBit(d.edge[i][j], &d.ek[i][j]) }
func (d *zzvDag) isIdent(i int) bool    { return zzvBit(d.ident[i], &d.ik[i]) }
func (d *zzvDag) fetchFails(i int) bool { return zzvBit(d.ferr[i], &d.fk[i]) }

// locality: 0 local, 1 not local, 2 check fails
func (d *zzvDag) locality(i int) int {
	if !d.f.local {
		return 0
	}
	if d.lk[i] >= 0 {
		return int(d.lk[i])
	}
	if d.local[i] == 1 {
		d.lk[i] = 1
	} else if d.local[i] == 2 {
		d.lk[i] = 2
	} else {
		d.lk[i] = 0
	}
	return int(d.lk[i])
}

func (d *zzvDag) entity(i int) EntityType {
	if d.tk[i] >= 0 {
		return EntityType(d.tk[i])
	}
	for t := EntityUnknown; t < EntitySymlink; t++ {
		if d.etype[i] == uint8(t) {
			d.tk[i] = int8(t)
			return t
		}
	}
	d.tk[i] = int8(EntitySymlink)
	return EntitySymlink
}

// ref is the CID by which the link i->j names node j.
func (d *zzvDag) ref(i, j int) int {
	if d.isIdent(j) {
		return j*4 + zzvFormID
	}
	if zzvBit(d.alias[i][j], &d.ak[i][j]) {
		return j*4 + zzvFormV0
	}
	return j*4 + zzvFormV1
}

// children: link list of node i as node*4+form, in link order.
func (d *zzvDag) children(i int) []int {
	var ch []int
	if d.rev {
		for j := d.n - 1; j > i; j-- {
			if d.has(i, j) {
				ch = append(ch, d.ref(i, j))
			}
		}
	} else {
		for j := i + 1; j < d.n; j++ {
			if d.has(i, j) {
				ch = append(ch, d.ref(i, j))
			}
		}
	}
	if len(ch) > 0 && zzvBit(d.dupl[i], &d.dk[i]) {
		ch = append(ch, ch[0])
	}
	return ch
}

func (d *zzvDag) cidOf(r int) cid.Cid { return d.forms[r/4][r%4] }

func (d *zzvDag) rootRef(i int) int {
	if d.isIdent(i) {
		return i*4 + zzvFormID
	}
	return i*4 + zzvFormV1
}

var zzvErrFetch = errors.New("zzv: block not available")

func (d *zzvDag) links(c cid.Cid) ([]cid.Cid, int, error) {
	r, ok := d.idx[c]
	if !ok {
		d.alien++
		return nil, -1, errors.New("zzv: CID not in pool")
	}
	i := r / 4
	d.fetched = append(d.fetched, i)
	if d.fetchFails(i) {
		return nil, i, zzvErrFetch
	}
	var out []cid.Cid
	for _, ch := range d.children(i) {
		out = append(out, d.cidOf(ch))
	}
	return out, i, nil
}

func (d *zzvDag) fetchLinks(ctx context.Context, c cid.Cid) ([]cid.Cid, error) {
	l, _, err := d.links(c)
	return l, err
}

func (d *zzvDag) fetchNode(ctx context.Context, c cid.Cid) ([]cid.Cid, EntityType, error) {
	l, i, err := d.links(c)
	if err != nil {
		return nil, EntityUnknown, err
	}
	return l, d.entity(i), nil
}

func (d *zzvDag) isLocal(ctx context.Context, c cid.Cid) (bool, error) {
	r, ok := d.idx[c]
	if !ok {
		d.alien++
		return false, nil
	}
	d.locCalls = append(d.locCalls, r/4)
	switch d.locality(r / 4) {
	case 1:
		return false, nil
	case 2:
		return false, errors.New("zzv: locality check failed")
	}
	return true, nil
}

// ---------------------------------------------------------------------------------------------------
// Reference: recursive pre-order DFS, children in link order, from the documented contract of WalkDAG /
// WalkEntityRoots (visit marks first, then locality, then fetch; identity CIDs are walked but not emitted; file and
// symlink roots are emitted but not descended into; emit may stop the walk).
// ---------------------------------------------------------------------------------------------------

type zzvRef struct {
	d       *zzvDag
	entity  bool
	visited [zzvMaxN]bool
	emitted []int
	count   int // emissions in the current walk
	stopped bool
}

func (r *zzvRef) walk(ref int) {
	if r.stopped {
		return
	}
	i := ref / 4
	if r.visited[i] {
		return
	}
	r.visited[i] = true
	if r.d.locality(i) != 0 {
		return
	}
	if r.d.fetchFails(i) {
		return
	}
	descend := true
	if r.entity {
		if t := r.d.entity(i); t == EntityFile || t == EntitySymlink {
			descend = false
		}
	}
	if ref%4 != zzvFormID {
		r.emitted = append(r.emitted, ref)
		r.count++
		if r.d.stopAt != 0 && r.count == r.d.stopAt {
			r.stopped = true
			return
		}
	}
	if descend {
		for _, ch := range r.d.children(i) {
			r.walk(ch)
		}
	}
}

func zzvEq(a, b []int) bool {
	if len(a) != len(b) {
		return false
	}
	for i := range a {
		if a[i] != b[i] {
			return false
		}
	}
	return true
}

func zzvRunWalk(n int, f zzvFeatures) {
	d := zzvNewDag(n, f)
	tracker := NewMapTracker()
	var emitted []int
	count := 0
	var cancelCtx context.CancelFunc
	emit := func(c cid.Cid) bool {
		r, ok := d.idx[c]
		if !ok {
			d.alien++
			r = -1
		}
		emitted = append(emitted, r)
		count++
		if d.stopAt != 0 && count == d.stopAt {
			if d.cancel {
				cancelCtx()
				return true
			}
			return false
		}
		return true
	}
	opts := []Option{WithVisitedTracker(tracker)}
	if f.local {
		opts = append(opts, WithLocality(d.isLocal))
	}
	run := func(root int) error {
		count = 0
		var ctx context.Context
		ctx, cancelCtx = context.WithCancel(context.Background())
		defer cancelCtx()
		if f.entity {
			return WalkEntityRoots(ctx, d.cidOf(root), d.fetchNode, emit, opts...)
		}
		return WalkDAG(ctx, d.cidOf(root), d.fetchLinks, emit, opts...)
	}
	// a walk ends with nil, or with the context's error when emit cancelled it
	okErr := func(err error, stopped bool) bool {
		return err == nil || (d.cancel && stopped && err == context.Canceled)
	}
	ref := &zzvRef{d: d, entity: f.entity}

	root1 := d.rootRef(0)
	err1 := run(root1)
	ref.walk(root1)
	n1 := len(emitted)
	verifrt.Observe("emitted1", n1)
	verifrt.Assert("C13.walk.returns-nil", okErr(err1, ref.stopped))
	verifrt.Assert("C13.walk.preorder-emission-sequence", zzvEq(emitted, ref.emitted))

	if f.two {
		r2 := verifrt.NondetRange("root2", 0, n-1)
		root2 := d.rootRef(r2)
		ref.count, ref.stopped = 0, false
		err2 := run(root2)
		ref.walk(root2)
		verifrt.Observe("emitted2", len(emitted)-n1)
		verifrt.Assert("C13.walk.returns-nil", okErr(err2, ref.stopped))
		verifrt.Assert("C13.walk.second-walk-skips-what-the-tracker-saw", zzvEq(emitted, ref.emitted))
	}

	// order-insensitive clauses (kept separate so that a failure says which part of the statement broke)
	verifrt.Assert("C13.walk.no-alien-cid", d.alien == 0)
	okOnce, okIdent, okLocal := true, true, true
	var seen [zzvMaxN]bool
	for _, r := range emitted {
		if r < 0 {
			continue
		}
		if seen[r/4] {
			okOnce = false
		}
		seen[r/4] = true
		if r%4 == zzvFormID {
			okIdent = false
		}
		if d.locality(r/4) != 0 {
			okLocal = false
		}
	}
	for _, i := range d.fetched {
		if d.locality(i) != 0 {
			okLocal = false
		}
	}
	verifrt.Assert("C13.walk.each-multihash-emitted-at-most-once", okOnce)
	verifrt.Assert("C13.walk.identity-cid-never-emitted", okIdent)
	verifrt.Assert("C13.walk.nonlocal-never-emitted-nor-fetched", okLocal)
	// every emitted CID is known to the tracker afterwards (exact tracker)
	okTracked := true
	for _, r := range emitted {
		if r >= 0 && !tracker.Has(d.cidOf(r)) {
			okTracked = false
		}
	}
	verifrt.Assert("C13.walk.emitted-are-tracked", okTracked)
	if !f.two && d.stopAt == 0 {
		// completeness, independent of order: reachable through local, fetchable blocks (and, for the entity walk,
		// not below a file or symlink root) and not an identity CID => emitted
		var reach [zzvMaxN]bool
		reach[0] = true
		okAll := true
		for i := 0; i < n; i++ {
			if !reach[i] {
				if seen[i] {
					okAll = false
				}
				continue
			}
			if d.locality(i) != 0 || d.fetchFails(i) {
				if seen[i] {
					okAll = false
				}
				continue
			}
			if !d.isIdent(i) && !seen[i] {
				okAll = false
			}
			if d.isIdent(i) && seen[i] {
				okAll = false
			}
			if f.entity {
				if t := d.entity(i); t == EntityFile || t == EntitySymlink {
					continue
				}
			}
			for j := i + 1; j < n; j++ {
				if d.has(i, j) {
					reach[j] = true
				}
			}
		}
		verifrt.Assert("C13.walk.emitted-set-is-reachable-local-set", okAll)
	}
	verifrt.Reach("end")
}

func zzvParamFeatures() zzvFeatures {
	return zzvFeatures{
		ident:  verifrt.Param("IDENT", 0) != 0,
		alias:  verifrt.Param("ALIAS", 0) != 0,
		local:  verifrt.Param("LOCAL", 0) != 0,
		ferr:   verifrt.Param("FERR", 0) != 0,
		stop:   verifrt.Param("STOP", 0) != 0,
		two:    verifrt.Param("TWO", 0) != 0,
		entity: verifrt.Param("ENTITY", 0) != 0,
		dup:    verifrt.Param("DUP", 0) != 0,
	}
}

// HarnessC13WalkShapes: WalkDAG over every DAG shape with identity-CID nodes and CIDv0/v1 aliases.
func HarnessC13WalkShapes() { zzvRunWalk(verifrt.Param("N", 4), zzvParamFeatures()) }

// HarnessC13WalkEnv: WalkDAG with a locality predicate, failing fetches, an emit that stops, two walks on one tracker.
func HarnessC13WalkEnv() { zzvRunWalk(verifrt.Param("N", 3), zzvParamFeatures()) }

// HarnessC13WalkEntities: WalkEntityRoots with a symbolic entity type per node.
func HarnessC13WalkEntities() { zzvRunWalk(verifrt.Param("N", 3), zzvParamFeatures()) }

// ---------------------------------------------------------------------------------------------------
// BloomTracker
// ---------------------------------------------------------------------------------------------------

// Under the engine randomSipHashKeys (crypto/rand) is bound to this stub: fixed keys per created bloom.
var zzvKeySeq uint64

func zzvSipKeys() (uint64, uint64) {
	zzvKeySeq++
	return 0x0706050403020100 ^ zzvKeySeq*0x9e3779b97f4a7c15, 0x0f0e0d0c0b0a0908 + zzvKeySeq
}

func zzvKeyCid(k int) cid.Cid {
	d := make([]byte, 32)
	d[0] = byte(k)
	d[1] = byte(k * 7)
	d[31] = 0x77
	m, err := mh.Encode(d, mh.SHA2_256)
	if err != nil {
		panic(err)
	}
	if k%2 == 1 {
		return cid.NewCidV0(m)
	}
	return cid.NewCidV1(cid.Raw, m)
}

// HarnessC13BloomGrowth drives the real BloomTracker over the real bbloom filter through several growth steps:
// T distinct keys are visited in order; at a symbolic moment a symbolic earlier key is looked up and re-visited
// (by either CID version of its multihash).
func HarnessC13BloomGrowth() {
	// Natively every filter of the chain draws fresh random SipHash keys, so a tiny filter has a (rare, random)
	// false positive now and then; under the engine the filter's hash is collision-free. The property only claims
	// the absence of false NEGATIVES, but the clauses about first visits and counters below presuppose that no
	// false positive happened. Natively the scenario is therefore recorded and, when a run saw a false positive
	// (a never-visited key reported present), repeated on a fresh tracker (fresh keys) up to 8 times; a defect
	// that reports new keys as visited fails every repetition and is still confirmed.
	T := verifrt.Param("T", 8)
	cap0 := verifrt.NondetRange("cap0", 1, verifrt.Param("CAP", 2))
	probeAt := verifrt.NondetRange("probeAt", 0, T-1)
	probeKey := verifrt.NondetRange("probeKey", 0, T-1)
	verifrt.Assume(probeKey <= probeAt)
	if verifrt.Symbolic() {
		zzvBloomGrowth(T, cap0, probeAt, probeKey, func(id string, ok bool) { verifrt.Assert(id, ok) }, verifrt.Observe)
		verifrt.Reach("end")
		return
	}
	type rec struct {
		id  string
		ok  bool
		obs any
	}
	var log []rec
	for attempt := 0; attempt < 8; attempt++ {
		log = log[:0]
		fp := zzvBloomGrowth(T, cap0, probeAt, probeKey,
			func(id string, ok bool) { log = append(log, rec{id: id, ok: ok}) },
			func(name string, v any) { log = append(log, rec{id: name, obs: v}) })
		if !fp {
			break
		}
	}
	for _, r := range log {
		if r.obs != nil {
			verifrt.Observe(r.id, r.obs)
		} else {
			verifrt.Assert(r.id, r.ok)
		}
	}
	verifrt.Reach("end")
}

// zzvBloomGrowth runs the scenario once, reporting every clause through A; it returns whether a never-visited key
// was reported as present (false positive, or a defect that looks like one).
func zzvBloomGrowth(T, cap0, probeAt, probeKey int, A func(id string, ok bool), O func(name string, v any)) (sawFP bool) {
	zzvKeySeq = 0
	zzvAbsMode = false
	b0, err := newBloom(uint64(cap0), 32, 3)
	if err != nil {
		panic(err)
	}
	bt := &BloomTracker{chain: []*bbloom.Bloom{b0}, lastCap: uint64(cap0), bitsPerElem: 32, hashLocs: 3}
	// reference: growth happens when the inserts into the newest filter exceed its capacity; capacities grow 4x
	wantCap, wantCur, wantLen := uint64(cap0), uint64(0), 1
	okFirst, okCounters, okChain := true, true, true
	for k := 0; k < T; k++ {
		prev := append([]*bbloom.Bloom(nil), bt.chain...)
		if bt.Has(zzvKeyCid(k)) {
			okFirst = false // a false positive of a tiny filter (natively: random, see HarnessC13BloomGrowth)
			sawFP = true
		}
		if !bt.Visit(zzvKeyCid(k)) {
			okFirst = false
			sawFP = true
		}
		wantCur++
		if wantCur > wantCap {
			wantCap *= BloomGrowthFactor
			wantCur = 0
			wantLen++
		}
		if bt.lastCap != wantCap || bt.curInserts != wantCur || bt.totalInserts != uint64(k+1) || bt.Count() != uint64(k+1) {
			okCounters = false
		}
		if len(bt.chain) != wantLen || len(bt.chain) < len(prev) {
			okChain = false
		} else {
			for i := range prev {
				if bt.chain[i] != prev[i] {
					okChain = false
				}
			}
		}
		if k == probeAt {
			alt := zzvAltCid(probeKey)
			dd := bt.Deduplicated()
			A("C13.bloom.visited-key-is-reported-by-has", bt.Has(zzvKeyCid(probeKey)) && bt.Has(alt))
			A("C13.bloom.visited-key-is-not-a-first-visit", !bt.Visit(alt) && !bt.Visit(zzvKeyCid(probeKey)))
			A("C13.bloom.dedup-counter", bt.Deduplicated() == dd+2)
			if bt.totalInserts != uint64(k+1) || bt.curInserts != wantCur || len(bt.chain) != wantLen {
				okCounters = false
			}
		}
	}
	O("chainLen", len(bt.chain))
	O("lastCap", bt.lastCap)
	A("C13.bloom.first-visit-of-new-key", okFirst)
	A("C13.bloom.counters-follow-capacity-rule", okCounters)
	A("C13.bloom.growth-appends-and-keeps-filters", okChain)
	okAll := true
	for k := 0; k < T; k++ {
		if !bt.Has(zzvKeyCid(k)) || !bt.Has(zzvAltCid(k)) || bt.Visit(zzvKeyCid(k)) {
			okAll = false
		}
	}
	A("C13.bloom.no-false-negative-after-growth", okAll)
	return sawFP
}

// zzvAltCid is the other CID version of key k's multihash.
func zzvAltCid(k int) cid.Cid {
	c := zzvKeyCid(k)
	if c.Version() == 0 {
		return cid.NewCidV1(cid.DagProtobuf, c.Hash())
	}
	return cid.NewCidV1(cid.DagCBOR, c.Hash())
}

// ---------------------------------------------------------------------------------------------------
// BloomTracker, inductive step over abstract filters: from ANY chain state in which every visited key is in some
// filter, one Visit/Has keeps that invariant and answers correctly. The filters are abstract sets with arbitrary
// false positives (FP=1) or exact (FP=0, validated natively against the real filter).
// ---------------------------------------------------------------------------------------------------

const zzvKeys = 3

type zzvAbs struct {
	in  [zzvKeys]uint8 // symbolic membership (0/1)
	fp  bool           // this filter may answer "present" for keys it does not hold
	fpk [zzvKeys]int8  // the (arbitrary but fixed) false-positive answer per key: 0 undecided, 1 yes, 2 no
}

var (
	zzvAbsMode bool // the filter stubs are active (engine, step harness only)
	zzvAbsOf   map[*bbloom.Bloom]*zzvAbs
	zzvAbsKeys map[string]int
	zzvAbsFP   bool
)

func zzvAbsKey(entry []byte) int {
	k, ok := zzvAbsKeys[string(entry)]
	if !ok {
		panic("zzv: unknown key")
	}
	return k
}

// Engine-only stubs of (*bbloom.Bloom).Has / AddIfNotHas and of newBloom (see spec.json). Outside the step
// harness they fall through to the real filter.
func zzvBloomHasStub(bl *bbloom.Bloom, entry []byte) bool {
	if !zzvAbsMode {
		return bl.Has(entry)
	}
	a := zzvAbsOf[bl]
	if a.in[zzvAbsKey(entry)] != 0 {
		return true
	}
	if !a.fp {
		return false
	}
	k := zzvAbsKey(entry)
	if a.fpk[k] == 0 {
		if verifrt.NondetBool("falsePositive") {
			a.fpk[k] = 1
		} else {
			a.fpk[k] = 2
		}
	}
	return a.fpk[k] == 1
}

func zzvBloomAddIfNotHasStub(bl *bbloom.Bloom, entry []byte) bool {
	if !zzvAbsMode {
		return bl.AddIfNotHas(entry)
	}
	if zzvBloomHasStub(bl, entry) {
		return false
	}
	zzvAbsOf[bl].in[zzvAbsKey(entry)] = 1
	return true
}

func zzvNewBloomStub(capacity uint64, bitsPerElem, hashLocs uint) (*bbloom.Bloom, error) {
	if !zzvAbsMode {
		return newBloom(capacity, bitsPerElem, hashLocs)
	}
	bl := new(bbloom.Bloom)
	zzvAbsOf[bl] = &zzvAbs{fp: zzvAbsFP}
	return bl, nil
}

func zzvBit8(name string) uint8 {
	v := verifrt.NondetU8(name)
	verifrt.Assume(v <= 1)
	return v
}

func zzvRunBloomStep(fp bool) {
	zzvAbsMode = verifrt.Symbolic()
	zzvAbsOf = map[*bbloom.Bloom]*zzvAbs{}
	zzvAbsKeys = map[string]int{}
	zzvAbsFP = fp
	zzvKeySeq = 0
	var cids [zzvKeys]cid.Cid
	for k := 0; k < zzvKeys; k++ {
		cids[k] = zzvKeyCid(k)
		zzvAbsKeys[string(cids[k].Hash())] = k
	}
	nch := verifrt.NondetRange("chainLen", 1, 3)
	var in [3][zzvKeys]uint8
	for b := 0; b < nch; b++ {
		for k := 0; k < zzvKeys; k++ {
			in[b][k] = zzvBit8("in")
		}
	}
	var visited [zzvKeys]uint8
	for k := 0; k < zzvKeys; k++ {
		visited[k] = zzvBit8("visited")
		// invariant of the pre-state: a visited key is in some filter of the chain
		verifrt.Assume(visited[k]&^(in[0][k]|in[1][k]|in[2][k]) == 0)
	}
	lastCap := verifrt.NondetU64("lastCap")
	cur := verifrt.NondetU64("curInserts")
	total := verifrt.NondetU64("totalInserts")
	dedup := verifrt.NondetU64("deduplicated")
	verifrt.Assume(lastCap >= 1)
	verifrt.Assume(lastCap < 1<<20) // keeps the native replay's real filters small; the engine run has no size
	verifrt.Assume(cur <= lastCap)
	verifrt.Assume(total >= cur)
	verifrt.Assume(total < 1<<62)
	verifrt.Assume(dedup < 1<<62)

	bt := &BloomTracker{lastCap: lastCap, curInserts: cur, totalInserts: total, deduplicated: dedup, bitsPerElem: 32, hashLocs: 3}
	for b := 0; b < nch; b++ {
		var bl *bbloom.Bloom
		if zzvAbsMode {
			bl = new(bbloom.Bloom)
			zzvAbsOf[bl] = &zzvAbs{in: in[b], fp: fp}
		} else {
			var err error
			bl, err = newBloom(4, 32, 3)
			if err != nil {
				panic(err)
			}
			for k := 0; k < zzvKeys; k++ {
				if in[b][k] != 0 {
					bl.Add(cids[k].Hash())
				}
			}
		}
		bt.chain = append(bt.chain, bl)
	}
	pre := append([]*bbloom.Bloom(nil), bt.chain...)
	same := func() uint64 { // 0 iff the scalar state is untouched
		return (bt.lastCap ^ lastCap) | (bt.curInserts ^ cur) | (bt.totalInserts ^ total) | uint64(len(bt.chain)^nch)
	}

	key := verifrt.NondetRange("key", 0, zzvKeys-1)
	c := cids[key]
	if verifrt.NondetBool("opHas") {
		got := bt.Has(c)
		if !fp {
			verifrt.Observe("has", got)
		}
		if !got {
			verifrt.Assert("C13.bloom.step.has-true-for-visited", visited[key] == 0)
		}
		verifrt.Assert("C13.bloom.step.has-changes-nothing", same()|(bt.deduplicated^dedup) == 0)
		verifrt.Reach("end")
		return
	}
	first := bt.Visit(c)
	if !fp {
		verifrt.Observe("first", first)
		verifrt.Observe("chainLen", len(bt.chain))
	}
	if first {
		verifrt.Assert("C13.bloom.step.visit-false-for-visited", visited[key] == 0)
	} else if !fp {
		// exact filters: only a key held by some filter is refused
		verifrt.Assert("C13.bloom.step.visit-true-for-new-key", in[0][key]|in[1][key]|in[2][key] == 1)
	}
	// the chain only ever grows at the end
	okPrefix := len(bt.chain) >= nch
	if okPrefix {
		for b := 0; b < nch; b++ {
			if bt.chain[b] != pre[b] {
				okPrefix = false
			}
		}
	}
	verifrt.Assert("C13.bloom.step.chain-keeps-earlier-filters", okPrefix)
	// afterwards every visited key, and the key just visited, is held by some filter of the chain
	if zzvAbsMode {
		bad := uint8(0)
		for k := 0; k < zzvKeys; k++ {
			h := uint8(0)
			for _, bl := range bt.chain {
				h |= zzvAbsOf[bl].in[k]
			}
			want := visited[k]
			if k == key && first {
				want = 1
			}
			bad |= want &^ h
		}
		verifrt.Assert("C13.bloom.step.visited-keys-stay-in-chain", bad == 0)
	}
	verifrt.Assert("C13.bloom.step.has-after-visit", bt.Has(c))
	if first {
		verifrt.Assert("C13.bloom.step.total-inserts", (bt.totalInserts^(total+1))|(bt.Count()^(total+1))|(bt.deduplicated^dedup) == 0)
		if cur+1 > lastCap {
			verifrt.Assert("C13.bloom.step.grows-when-capacity-exceeded", uint64(len(bt.chain)^(nch+1))|(bt.lastCap^(lastCap*BloomGrowthFactor))|bt.curInserts == 0)
		} else {
			verifrt.Assert("C13.bloom.step.no-growth-below-capacity", uint64(len(bt.chain)^nch)|(bt.lastCap^lastCap)|(bt.curInserts^(cur+1)) == 0)
		}
		verifrt.Assert("C13.bloom.step.inserts-within-capacity", bt.curInserts <= bt.lastCap)
	} else {
		verifrt.Assert("C13.bloom.step.dedup-leaves-state", same()|(bt.deduplicated^(dedup+1)) == 0)
	}
	verifrt.Reach("end")
}

// HarnessC13BloomStepExact: inductive step with exact filters (validated natively against the real bbloom).
func HarnessC13BloomStepExact() { zzvRunBloomStep(false) }

// HarnessC13BloomStepFP: inductive step with filters that may report arbitrary false positives.
func HarnessC13BloomStepFP() { zzvRunBloomStep(true) }

// ---------------------------------------------------------------------------------------------------
// detectEntityType: UnixFS type field -> entity type
// ---------------------------------------------------------------------------------------------------

// zzvPBNode is the part of a decoded dag-pb node that detectEntityType looks at.
type zzvPBNode struct {
	ipld.Node
	mode int // 0 Data present, 1 no Data field, 2 Data absent, 3 Data null, 4 Data is not bytes
	data []byte
}

type zzvDataField struct {
	ipld.Node
	mode int
	data []byte
}

func (n *zzvPBNode) Kind() ipld.Kind { return ipld.Kind_Map }
func (n *zzvPBNode) LookupByString(key string) (ipld.Node, error) {
	if key != "Data" || n.mode == 1 {
		return nil, errors.New("zzv: no such field")
	}
	return &zzvDataField{mode: n.mode, data: n.data}, nil
}
func (f *zzvDataField) IsAbsent() bool { return f.mode == 2 }
func (f *zzvDataField) IsNull() bool   { return f.mode == 3 }
func (f *zzvDataField) AsBytes() ([]byte, error) {
	if f.mode == 4 {
		return nil, errors.New("zzv: not bytes")
	}
	return f.data, nil
}

// Under the engine unixfs.FSNodeFromBytes (protobuf decoding) is bound to this stub, which understands exactly the
// encoding the harness produces: field 1 (Type) as a one-byte varint, nothing else.
func zzvFSNodeFromBytes(b []byte) (*unixfs.FSNode, error) {
	if len(b) != 2 || b[0] != 0x08 {
		return nil, errors.New("zzv: not a UnixFS Data message")
	}
	return unixfs.NewFSNode(pb.Data_DataType(b[1])), nil
}

// HarnessC13DetectEntity: for every codec class, every shape of the Data field and every UnixFS type value the
// detected entity type is the documented one (file and raw -> file; directory; HAMT shard; symlink; else unknown).
func HarnessC13DetectEntity() {
	codecs := []uint64{cid.Raw, cid.DagProtobuf, cid.DagCBOR}
	codec := codecs[verifrt.NondetRange("codec", 0, 2)]
	m, err := mh.Encode(zzvDigest(1), mh.SHA2_256)
	if err != nil {
		panic(err)
	}
	c := cid.NewCidV1(codec, m)
	if codec == cid.DagProtobuf && verifrt.NondetBool("cidv0") {
		c = cid.NewCidV0(m)
	}
	mode := verifrt.NondetRange("dataMode", 0, 5)
	t := verifrt.NondetU8("unixfsType")
	verifrt.Assume(t <= 5)
	data := []byte{0x08, t}
	if mode == 5 {
		data = []byte{0x12, 0x00} // a Data message without the required Type field
		if !verifrt.Symbolic() {
			data = []byte{0xff}
		}
	}
	got := detectEntityType(c, &zzvPBNode{mode: mode, data: data})
	verifrt.Observe("entity", int(got))
	want := EntityUnknown
	switch {
	case codec == cid.Raw:
		want = EntityFile
	case codec != cid.DagProtobuf, mode != 0:
		want = EntityUnknown
	default:
		wants := [6]EntityType{
			pb.Data_Raw:       EntityFile,
			pb.Data_Directory: EntityDirectory,
			pb.Data_File:      EntityFile,
			pb.Data_Metadata:  EntityUnknown,
			pb.Data_Symlink:   EntitySymlink,
			pb.Data_HAMTShard: EntityHAMTShard,
		}
		for k := uint8(0); k <= 5; k++ {
			if t == k {
				want = wants[k]
			}
		}
	}
	verifrt.Assert("C13.entity.type-follows-unixfs-type", got == want)
	verifrt.Reach("end")
}

// HarnessC13BloomNew: constructor validation and parameter derivation (concrete arithmetic, a few rates).
func HarnessC13BloomNew() {
	zzvAbsMode = false
	zzvKeySeq = 0
	items := []uint{0, MinBloomCapacity - 1, MinBloomCapacity, MinBloomCapacity + 1}[verifrt.NondetRange("items", 0, 3)]
	rates := []uint{0, 1, 2, 3, 5, 6, 1000, DefaultBloomFPRate, 10_000_000, 1 << 32}
	rate := rates[verifrt.NondetRange("rate", 0, len(rates)-1)]
	bt, err := NewBloomTracker(items, rate)
	verifrt.Observe("ok", err == nil)
	wantErr := items < MinBloomCapacity || rate == 0
	verifrt.Assert("C13.bloom.new.rejects-bad-parameters", (err != nil) == wantErr)
	if err != nil {
		verifrt.Assert("C13.bloom.new.no-tracker-on-error", bt == nil)
		verifrt.Reach("end")
		return
	}
	verifrt.Observe("hashLocs", bt.hashLocs)
	verifrt.Observe("bitsPerElem", bt.bitsPerElem)
	// k = round(log2(rate)), at least 1:  2^(2k-1) <= rate^2 < 2^(2k+1)
	k := uint64(bt.hashLocs)
	r2 := uint64(rate) * uint64(rate) // rate <= 2^32: no overflow except 2^32 itself, handled below
	okK := k >= 1
	if rate == 1<<32 {
		okK = k == 32
	} else if rate >= 2 {
		okK = okK && (uint64(1)<<(2*k-1)) <= r2 && r2 < (uint64(1)<<(2*k+1))
	} else {
		okK = k == 1
	}
	verifrt.Assert("C13.bloom.new.hash-count-is-rounded-log2", okK)
	// bits per element = ceil(k / ln 2): the smallest b with b*ln2 >= k  (ln 2 = 0.693147180559945...)
	b := uint64(bt.bitsPerElem)
	const ln2e15 = 693147180559945
	verifrt.Assert("C13.bloom.new.bits-per-element", b*ln2e15+b >= k*1_000_000_000_000_000 && (b-1)*ln2e15+(b-1) < k*1_000_000_000_000_000)
	verifrt.Assert("C13.bloom.new.initial-state", len(bt.chain) == 1 && bt.lastCap == uint64(items) && bt.Count() == 0 && bt.Deduplicated() == 0)
	c := zzvKeyCid(4)
	verifrt.Assert("C13.bloom.new.first-visit", !bt.Has(c) && bt.Visit(c) && bt.Has(c) && !bt.Visit(zzvAltCid(4)) && bt.Count() == 1 && bt.Deduplicated() == 1)
	verifrt.Reach("end")
}

// HarnessC13WalkAliases: WalkDAG over 4-node shapes with identity nodes and CIDv0/v1 aliases (thorough tier; the quick
// tier runs these bounds as HarnessC13WalkShapes).
func HarnessC13WalkAliases() { zzvRunWalk(verifrt.Param("N", 4), zzvParamFeatures()) }

// HarnessC13WalkEnvIdent: the environment walk (locality, failing fetches, stopping emit, two walks) with identity nodes.
func HarnessC13WalkEnvIdent() { zzvRunWalk(verifrt.Param("N", 3), zzvParamFeatures()) }

// HarnessC13WalkDupLinks: blocks that link to the same child more than once ([X, Y, X]).
func HarnessC13WalkDupLinks() { zzvRunWalk(verifrt.Param("N", 4), zzvParamFeatures()) }
