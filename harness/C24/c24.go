package dsindex

import (
	"context"
	"path"
	"strings"

	"github.com/ipfs/boxo/internal/verifrt"
	ds "github.com/ipfs/go-datastore"
	"github.com/ipfs/go-datastore/query"
)

// ---------------------------------------------------------------------------------------------
// T1 kernel: encode/decode and the path handling that ForEach/Search apply to a stored entry key
// ---------------------------------------------------------------------------------------------

// HarnessC24Codec: for every key of 0..N arbitrary bytes decode(encode(k)) == k, the encoding is a single
// non-empty path component (no '/', not "." / ".."), and an entry key built the way Add builds it splits back
// (path.Base / path.Dir, as ForEach and Search do) into exactly the two encodings. Two different keys never
// have the same encoding.
func HarnessC24Codec() {
	n := verifrt.NondetRange("n", 0, verifrt.Param("N", 4))
	k := verifrt.NondetString("k", n)
	e := encode(k)
	verifrt.Observe("enc", e)
	d, err := decode(e)
	verifrt.Assert("C24.codec-decode-ok", err == nil)
	verifrt.Assert("C24.codec-roundtrip", d == k)
	verifrt.Assert("C24.codec-single-component", len(e) >= 1 && strings.IndexByte(e, '/') < 0 && e != "." && e != "..")
	verifrt.Assert("C24.codec-clean-stable", path.Clean("/"+e) == "/"+e)

	m := verifrt.NondetRange("m", 0, verifrt.Param("M", 2))
	v := verifrt.NondetString("v", m)
	ev := encode(v)
	dsKey := ds.NewKey(e).ChildString(ev)
	ks := dsKey.String()
	verifrt.Observe("dskey", ks)
	verifrt.Assert("C24.entry-key-splits-index", path.Base(path.Dir(ks)) == e)
	verifrt.Assert("C24.entry-key-splits-value", path.Base(ks) == ev)

	// injectivity against a second key of any length up to N
	n2 := verifrt.NondetRange("n2", 0, verifrt.Param("N", 4))
	k2 := verifrt.NondetString("k2", n2)
	if k2 != k {
		verifrt.Assert("C24.codec-injective", encode(k2) != e)
	}
	verifrt.Reach("end")
}

// HarnessC24Prefix: the prefix question on the real go-datastore filter. k1 != k2 arbitrary (lengths 1..N1 and
// 1..N2, so k1 may be a byte prefix of k2 and, with |k1| = 3 < |k2|, enc(k1) a string prefix of enc(k2)); the
// entry /enc(k2)/enc(v) is pushed through query.NaiveQueryApply with Prefix enc(k1) (what MapDatastore.Query does)
// and must not match; with Prefix enc(k2) it must.
func HarnessC24Prefix() {
	n1 := verifrt.NondetRange("n1", 1, verifrt.Param("N1", 3))
	n2 := verifrt.NondetRange("n2", 1, verifrt.Param("N2", 4))
	nv := verifrt.NondetRange("nv", 1, verifrt.Param("NV", 2))
	k1 := verifrt.NondetString("k1", n1)
	k2 := verifrt.NondetString("k2", n2)
	v := verifrt.NondetString("v", nv)
	verifrt.Assume(k1 != k2)
	entKey := ds.NewKey(encode(k2)).ChildString(encode(v)).String()
	verifrt.Observe("entkey", entKey)
	verifrt.Observe("pfx", encode(k1))

	run := func(prefix string) int {
		q := query.Query{Prefix: prefix, KeysOnly: true}
		res := query.NaiveQueryApply(q, query.ResultsWithEntries(q, []query.Entry{{Key: entKey}}))
		ents, err := res.Rest()
		if err != nil {
			return -1
		}
		return len(ents)
	}
	verifrt.Assert("C24.prefix-other-key-no-match", run(encode(k1)) == 0)
	verifrt.Assert("C24.prefix-own-key-matches", run(encode(k2)) == 1)
	verifrt.Assert("C24.prefix-empty-matches-all", run("") == 1)

	// the same through the real indexer on the map datastore
	ctx := context.Background()
	x := New(ds.NewMapDatastore(), ds.NewKey("/ns/idx"))
	verifrt.Assert("C24.prefix-add-ok", x.Add(ctx, k2, v) == nil)
	got, err := x.Search(ctx, k1)
	verifrt.Assert("C24.prefix-search-other-empty", err == nil && len(got) == 0)
	got, err = x.Search(ctx, k2)
	verifrt.Assert("C24.prefix-search-own", err == nil && len(got) == 1 && got[0] == v)
	any1, err1 := x.HasAny(ctx, k1)
	verifrt.Assert("C24.prefix-hasany-other", err1 == nil && !any1)
	cnt, err := x.DeleteKey(ctx, k1)
	verifrt.Assert("C24.prefix-deletekey-other", err == nil && cnt == 0)
	has, err := x.HasValue(ctx, k2, v)
	verifrt.Assert("C24.prefix-survives-deletekey-other", err == nil && has)
	verifrt.Reach("end")
}

// ---------------------------------------------------------------------------------------------
// T3: operation sequences against a multimap model
// ---------------------------------------------------------------------------------------------

type zzvPair struct{ k, v string }

type zzvModel struct{ pairs []zzvPair }

func (m *zzvModel) has(k, v string) bool {
	for _, p := range m.pairs {
		if p.k == k && p.v == v {
			return true
		}
	}
	return false
}

func (m *zzvModel) add(k, v string) {
	if !m.has(k, v) {
		m.pairs = append(m.pairs, zzvPair{k, v})
	}
}

// del removes the pairs selected by f and returns how many were removed.
func (m *zzvModel) del(f func(p zzvPair) bool) int {
	var keep []zzvPair
	n := 0
	for _, p := range m.pairs {
		if f(p) {
			n++
		} else {
			keep = append(keep, p)
		}
	}
	m.pairs = keep
	return n
}

func (m *zzvModel) values(k string) []string {
	var out []string
	for _, p := range m.pairs {
		if p.k == k {
			out = append(out, p.v)
		}
	}
	return out
}

func zzvSameSet(a, b []string) bool {
	if len(a) != len(b) {
		return false
	}
	for _, x := range a {
		f := false
		for _, y := range b {
			if x == y {
				f = true
				break
			}
		}
		if !f {
			return false
		}
	}
	// a has no duplicates <=> equal length + inclusion both ways
	for _, y := range b {
		f := false
		for _, x := range a {
			if x == y {
				f = true
				break
			}
		}
		if !f {
			return false
		}
	}
	return true
}

func zzvSamePairs(a, b []zzvPair) bool {
	if len(a) != len(b) {
		return false
	}
	in := func(p zzvPair, l []zzvPair) bool {
		for _, q := range l {
			if p.k == q.k && p.v == q.v {
				return true
			}
		}
		return false
	}
	for _, p := range a {
		if !in(p, b) {
			return false
		}
	}
	for _, p := range b {
		if !in(p, a) {
			return false
		}
	}
	return true
}

// zzvCheckAll compares every query the Indexer offers with the model, for each pool key/value.
func zzvCheckAll(ctx context.Context, x Indexer, m *zzvModel, keys, vals []string) {
	for _, k := range keys {
		got, err := x.Search(ctx, k)
		verifrt.Assert("C24.search-no-error", err == nil)
		verifrt.Assert("C24.search-equals-model", zzvSameSet(got, m.values(k)))
		any, err := x.HasAny(ctx, k)
		verifrt.Assert("C24.hasany-key-equals-model", err == nil && any == (len(m.values(k)) > 0))
		for _, v := range vals {
			h, err := x.HasValue(ctx, k, v)
			verifrt.Assert("C24.hasvalue-equals-model", err == nil && h == m.has(k, v))
		}
		var fe []zzvPair
		err = x.ForEach(ctx, k, func(key, value string) bool {
			fe = append(fe, zzvPair{key, value})
			return true
		})
		var want []zzvPair
		for _, v := range m.values(k) {
			want = append(want, zzvPair{k, v})
		}
		verifrt.Assert("C24.foreach-key-equals-model", err == nil && zzvSamePairs(fe, want))
	}
	var all []zzvPair
	err := x.ForEach(ctx, "", func(key, value string) bool {
		all = append(all, zzvPair{key, value})
		return true
	})
	verifrt.Assert("C24.foreach-all-equals-model", err == nil && zzvSamePairs(all, m.pairs))
	any, err := x.HasAny(ctx, "")
	verifrt.Assert("C24.hasany-all-equals-model", err == nil && any == (len(m.pairs) > 0))
	// early stop: ForEach calls fn at most once when fn returns false
	calls := 0
	err = x.ForEach(ctx, "", func(key, value string) bool { calls++; return false })
	want := 0
	if len(m.pairs) > 0 {
		want = 1
	}
	verifrt.Assert("C24.foreach-stops", err == nil && calls == want)
}

// zzvOps: K operations (Add / Delete / DeleteKey / DeleteAll) on the real indexer over namespace.Wrap +
// MapDatastore. Keys come from a pool with the given lengths, values from {1 byte, 2 bytes}; all bytes symbolic
// (so pool keys of equal length may coincide or not). With pfx the second pool key starts with the first one
// (for lengths 3 and 4 this makes enc(k0) a string prefix of enc(k1)). After every operation (EACH=1) or after
// the last one all queries are compared with the multimap model.
func zzvOps(klens []int, pfx bool) {
	ctx := context.Background()
	nk := len(klens)
	keys := make([]string, nk)
	for i := range keys {
		keys[i] = verifrt.NondetString("key", klens[i])
	}
	vals := []string{verifrt.NondetString("val", 1), verifrt.NondetString("val", 2)}
	if pfx {
		verifrt.Assume(keys[1][:len(keys[0])] == keys[0])
	}

	x := New(ds.NewMapDatastore(), ds.NewKey("/ns/idx"))
	m := &zzvModel{}
	K := verifrt.Param("K", 2)
	each := verifrt.Param("EACH", 1) == 1
	for i := 0; i < K; i++ {
		switch verifrt.NondetRange("op", 0, 3) {
		case 0:
			k := keys[verifrt.NondetRange("ki", 0, nk-1)]
			v := vals[verifrt.NondetRange("vi", 0, 1)]
			verifrt.Assert("C24.add-no-error", x.Add(ctx, k, v) == nil)
			m.add(k, v)
		case 1:
			k := keys[verifrt.NondetRange("ki", 0, nk-1)]
			v := vals[verifrt.NondetRange("vi", 0, 1)]
			verifrt.Assert("C24.delete-no-error", x.Delete(ctx, k, v) == nil)
			m.del(func(p zzvPair) bool { return p.k == k && p.v == v })
		case 2:
			k := keys[verifrt.NondetRange("ki", 0, nk-1)]
			cnt, err := x.DeleteKey(ctx, k)
			want := m.del(func(p zzvPair) bool { return p.k == k })
			verifrt.Assert("C24.deletekey-count", err == nil && cnt == want)
		case 3:
			cnt, err := x.DeleteAll(ctx)
			want := m.del(func(p zzvPair) bool { return true })
			verifrt.Assert("C24.deleteall-count", err == nil && cnt == want)
		}
		if each || i == K-1 {
			zzvCheckAll(ctx, x, m, keys, vals)
		}
	}
	verifrt.Observe("npairs", len(m.pairs))
	verifrt.Reach("end")
}

// HarnessC24Ops: pool keys of 1 and 2 symbolic bytes (the 1-byte key may be a byte prefix of the other).
func HarnessC24Ops() { zzvOps([]int{1, 2}, false) }

// HarnessC24OpsEq: two pool keys of 2 symbolic bytes each: equal or different, decided by the solver.
func HarnessC24OpsEq() { zzvOps([]int{2, 2}, false) }

// HarnessC24OpsPfx: pool keys of 3 and 4 bytes, the second starting with the first: enc(k0) is a string prefix
// of enc(k1) (base64 of 3 bytes is 4 characters without padding).
func HarnessC24OpsPfx() { zzvOps([]int{3, 4}, true) }

// HarnessC24Empty: empty key / value are rejected by every operation without touching the index; a cancelled
// context makes ForEach fail instead of returning a partial answer.
func HarnessC24Empty() {
	ctx := context.Background()
	x := New(ds.NewMapDatastore(), ds.NewKey("/ns/idx"))
	k := verifrt.NondetString("k", 1)
	v := verifrt.NondetString("v", 1)
	verifrt.Assert("C24.add-no-error", x.Add(ctx, k, v) == nil)
	verifrt.Assert("C24.empty-add-key", x.Add(ctx, "", v) == ErrEmptyKey)
	verifrt.Assert("C24.empty-add-value", x.Add(ctx, k, "") == ErrEmptyValue)
	verifrt.Assert("C24.empty-delete-key", x.Delete(ctx, "", v) == ErrEmptyKey)
	verifrt.Assert("C24.empty-delete-value", x.Delete(ctx, k, "") == ErrEmptyValue)
	_, err := x.DeleteKey(ctx, "")
	verifrt.Assert("C24.empty-deletekey", err == ErrEmptyKey)
	_, err = x.Search(ctx, "")
	verifrt.Assert("C24.empty-search", err == ErrEmptyKey)
	_, err = x.HasValue(ctx, "", v)
	verifrt.Assert("C24.empty-hasvalue-key", err == ErrEmptyKey)
	_, err = x.HasValue(ctx, k, "")
	verifrt.Assert("C24.empty-hasvalue-value", err == ErrEmptyValue)
	m := &zzvModel{}
	m.add(k, v)
	zzvCheckAll(ctx, x, m, []string{k}, []string{v})
	cctx, cancel := context.WithCancel(ctx)
	cancel()
	n := 0
	err = x.ForEach(cctx, k, func(key, value string) bool { n++; return true })
	verifrt.Assert("C24.cancelled-foreach-errors", err != nil && n == 0)
	verifrt.Reach("end")
}
