package mfs

// Stubs shared by the MFS harnesses (copied from harness/C10, which validates them against the real
// protobuf-go / multihash code on every run of C10 as well).

import (
	"encoding/binary"
	"errors"
	"hash"

	"github.com/ipfs/boxo/internal/verifrt"
	pb "github.com/ipfs/boxo/ipld/unixfs/pb"
	mh "github.com/multiformats/go-multihash"
	mhcore "github.com/multiformats/go-multihash/core"
	"google.golang.org/protobuf/proto"
)

// ---- multihash.Sum -------------------------------------------------------------------------------------
// zzIntern numbers the distinct concrete hash inputs seen on a path.
var zzIntern []string

// Concrete input: an interned digest (01 | index), i.e. one particular collision-free deterministic function,
// so that fully concrete DAG surgery costs no solver work. Symbolic input: uninterpreted collision-free
// function whose digests start with FE (never equal to an interned one).
func zzMhSum(data []byte, code uint64, length int) (mh.Multihash, error) {
	if code == mh.IDENTITY {
		return mh.Encode(data, mh.IDENTITY)
	}
	if length < 0 {
		length = 32
	}
	if verifrt.IsConcrete(data) {
		key := string(data) + string(rune(code))
		idx := -1
		for i, k := range zzIntern {
			if k == key {
				idx = i
			}
		}
		if idx < 0 {
			idx = len(zzIntern)
			zzIntern = append(zzIntern, key)
		}
		d := make([]byte, length)
		d[0] = 0x01
		binary.BigEndian.PutUint32(d[1:], uint32(idx))
		return mh.Encode(d, code)
	}
	algo := "crypto:mh-sha2-256"
	if code != mh.SHA2_256 {
		algo = "crypto:mh-other"
	}
	d := verifrt.HashUF(algo, data, length)
	verifrt.Assume(d[0] == 0xFE)
	return mh.Encode(d, code)
}

// zzGetHasher stands in for multihash/core.GetVariableHasher (the registry is filled from crypto/* constructors
// which the engine does not run); only the error is used by merkledag.checkHasher.
func zzGetHasher(code uint64, sizeHint int) (hash.Hash, error) {
	switch code {
	case mh.IDENTITY, mh.SHA2_256, mh.SHA2_512, mh.SHA1:
		return nil, nil
	}
	return nil, mhcore.ErrSumNotSupported
}

// ---- protobuf model of unixfs pb.Data (engine only; natively protobuf-go runs) ----------------------------
func zzAppendVarint(b []byte, v uint64) []byte {
	for v >= 0x80 {
		b = append(b, byte(v)|0x80)
		v >>= 7
	}
	return append(b, byte(v))
}

func zzEncTimestamp(t *pb.IPFSTimestamp) ([]byte, error) {
	var b []byte
	if t.Seconds == nil {
		return nil, errors.New("required field seconds not set")
	}
	b = append(b, 0x08)
	b = zzAppendVarint(b, uint64(*t.Seconds))
	if t.Nanos != nil {
		b = append(b, 0x15)
		b = binary.LittleEndian.AppendUint32(b, *t.Nanos)
	}
	return b, nil
}

func zzEncData(d *pb.Data) ([]byte, error) {
	var b []byte
	if d.Type == nil {
		return nil, errors.New("required field Type not set")
	}
	b = append(b, 0x08)
	b = zzAppendVarint(b, uint64(int64(int32(*d.Type))))
	if d.Data != nil {
		b = append(b, 0x12)
		b = zzAppendVarint(b, uint64(len(d.Data)))
		b = append(b, d.Data...)
	}
	if d.Filesize != nil {
		b = append(b, 0x18)
		b = zzAppendVarint(b, *d.Filesize)
	}
	for _, s := range d.Blocksizes {
		b = append(b, 0x20)
		b = zzAppendVarint(b, s)
	}
	if d.HashType != nil {
		b = append(b, 0x28)
		b = zzAppendVarint(b, *d.HashType)
	}
	if d.Fanout != nil {
		b = append(b, 0x30)
		b = zzAppendVarint(b, *d.Fanout)
	}
	if d.Mode != nil {
		b = append(b, 0x38)
		b = zzAppendVarint(b, uint64(*d.Mode))
	}
	if d.Mtime != nil {
		tb, err := zzEncTimestamp(d.Mtime)
		if err != nil {
			return nil, err
		}
		b = append(b, 0x42)
		b = zzAppendVarint(b, uint64(len(tb)))
		b = append(b, tb...)
	}
	return b, nil
}

func zzPbMarshal(m proto.Message) ([]byte, error) {
	switch x := m.(type) {
	case *pb.Data:
		return zzEncData(x)
	case *pb.IPFSTimestamp:
		return zzEncTimestamp(x)
	}
	panic("zzPbMarshal: unmodelled message type")
}

var errZzTrunc = errors.New("proto: truncated")

func zzReadVarint(b []byte, i int) (uint64, int, error) {
	var v uint64
	for shift := uint(0); shift < 70; shift += 7 {
		if i >= len(b) {
			return 0, i, errZzTrunc
		}
		c := b[i]
		i++
		v |= uint64(c&0x7f) << shift
		if c < 0x80 {
			return v, i, nil
		}
	}
	return 0, i, errors.New("proto: varint overflow")
}

func zzSkip(b []byte, i int, wt uint64) (int, error) {
	switch wt {
	case 0:
		_, j, err := zzReadVarint(b, i)
		return j, err
	case 1:
		if i+8 > len(b) {
			return i, errZzTrunc
		}
		return i + 8, nil
	case 2:
		l, j, err := zzReadVarint(b, i)
		if err != nil {
			return j, err
		}
		if uint64(len(b)-j) < l {
			return j, errZzTrunc
		}
		return j + int(l), nil
	case 5:
		if i+4 > len(b) {
			return i, errZzTrunc
		}
		return i + 4, nil
	}
	return i, errors.New("proto: bad wire type")
}

func zzDecTimestamp(b []byte, t *pb.IPFSTimestamp) error {
	t.Seconds, t.Nanos = nil, nil
	i := 0
	for i < len(b) {
		tag, j, err := zzReadVarint(b, i)
		if err != nil {
			return err
		}
		i = j
		switch tag {
		case 0x08:
			v, j, err := zzReadVarint(b, i)
			if err != nil {
				return err
			}
			i = j
			s := int64(v)
			t.Seconds = &s
		case 0x15:
			if i+4 > len(b) {
				return errZzTrunc
			}
			n := binary.LittleEndian.Uint32(b[i:])
			i += 4
			t.Nanos = &n
		default:
			if i, err = zzSkip(b, i, tag&7); err != nil {
				return err
			}
		}
	}
	if t.Seconds == nil {
		return errors.New("proto: required field seconds not set")
	}
	return nil
}

func zzDecData(b []byte, d *pb.Data) error {
	d.Type, d.Data, d.Filesize, d.Blocksizes, d.HashType, d.Fanout, d.Mode, d.Mtime = nil, nil, nil, nil, nil, nil, nil, nil
	i := 0
	for i < len(b) {
		tag, j, err := zzReadVarint(b, i)
		if err != nil {
			return err
		}
		i = j
		switch tag {
		case 0x08, 0x18, 0x20, 0x28, 0x30, 0x38:
			v, j, err := zzReadVarint(b, i)
			if err != nil {
				return err
			}
			i = j
			switch tag {
			case 0x08:
				t := pb.Data_DataType(int32(v))
				d.Type = &t
			case 0x18:
				d.Filesize = &v
			case 0x20:
				d.Blocksizes = append(d.Blocksizes, v)
			case 0x28:
				d.HashType = &v
			case 0x30:
				d.Fanout = &v
			case 0x38:
				m := uint32(v)
				d.Mode = &m
			}
		case 0x12, 0x42:
			l, j, err := zzReadVarint(b, i)
			if err != nil {
				return err
			}
			i = j
			if uint64(len(b)-i) < l {
				return errZzTrunc
			}
			body := b[i : i+int(l)]
			i += int(l)
			if tag == 0x12 {
				d.Data = append([]byte{}, body...)
			} else {
				if d.Mtime == nil {
					d.Mtime = &pb.IPFSTimestamp{}
				}
				if err := zzDecTimestamp(body, d.Mtime); err != nil {
					return err
				}
			}
		default:
			if i, err = zzSkip(b, i, tag&7); err != nil {
				return err
			}
		}
	}
	if d.Type == nil {
		return errors.New("proto: required field Type not set")
	}
	return nil
}

func zzPbUnmarshal(b []byte, m proto.Message) error {
	switch x := m.(type) {
	case *pb.Data:
		return zzDecData(b, x)
	case *pb.IPFSTimestamp:
		return zzDecTimestamp(b, x)
	}
	panic("zzPbUnmarshal: unmodelled message type")
}

