package mfs

import (
	"context"
	"errors"
	iofs "io/fs"
	"os"
	"sort"
	"strconv"
	"strings"
	"time"

	"github.com/ipfs/boxo/internal/verifrt"
	dag "github.com/ipfs/boxo/ipld/merkledag"
	ft "github.com/ipfs/boxo/ipld/unixfs"
	uio "github.com/ipfs/boxo/ipld/unixfs/io"
	cid "github.com/ipfs/go-cid"
	ipld "github.com/ipfs/go-ipld-format"
)

// ---- in-memory DAG service ---------------------------------------------------------------------------------
//
// Like a block-backed service it snapshots a node when it is added and hands out a fresh, unshared node on
// every Get (the real one serialises on Add and decodes on Get).

type zzvDag struct {
	keys  []string
	nodes []ipld.Node
}

func zzvCloneNode(n ipld.Node) ipld.Node {
	switch nd := n.(type) {
	case *dag.ProtoNode:
		var d []byte
		if nd.Data() != nil {
			d = make([]byte, len(nd.Data()))
			copy(d, nd.Data())
		}
		c := dag.NodeWithData(d)
		c.SetCidBuilder(nd.CidBuilder())
		for _, l := range nd.Links() {
			c.AddRawLink(l.Name, l)
		}
		return c
	default:
		return n // raw nodes are immutable
	}
}

func (d *zzvDag) find(k string) int {
	for i := range d.keys {
		if d.keys[i] == k {
			return i
		}
	}
	return -1
}

func (d *zzvDag) Get(ctx context.Context, c cid.Cid) (ipld.Node, error) {
	if i := d.find(c.KeyString()); i >= 0 {
		return zzvCloneNode(d.nodes[i]), nil
	}
	return nil, ipld.ErrNotFound{Cid: c}
}

func (d *zzvDag) GetMany(ctx context.Context, cs []cid.Cid) <-chan *ipld.NodeOption {
	out := make(chan *ipld.NodeOption, len(cs))
	for _, c := range cs {
		n, err := d.Get(ctx, c)
		out <- &ipld.NodeOption{Node: n, Err: err}
	}
	close(out)
	return out
}

func (d *zzvDag) Add(ctx context.Context, n ipld.Node) error {
	k := n.Cid().KeyString()
	if d.find(k) >= 0 {
		return nil
	}
	d.keys = append(d.keys, k)
	d.nodes = append(d.nodes, zzvCloneNode(n))
	return nil
}

func (d *zzvDag) AddMany(ctx context.Context, ns []ipld.Node) error {
	for _, n := range ns {
		if err := d.Add(ctx, n); err != nil {
			return err
		}
	}
	return nil
}

func (d *zzvDag) Remove(ctx context.Context, c cid.Cid) error         { return nil }
func (d *zzvDag) RemoveMany(ctx context.Context, cs []cid.Cid) error { return nil }

// ---- reference model: a tree of named entries -----------------------------------------------------------------

type zzvM struct {
	dir   bool
	data  []byte // content of a file
	mode  uint32 // permission bits, 0 = none stored
	mtime int64  // modification time (Unix seconds), 0 = none stored
	names []string
	kids  []*zzvM
}

// zzvStat renders stored metadata: "@<octal mode>" and "^<seconds>", nothing when unset.
func zzvStat(mode uint32, mtime int64) string {
	s := ""
	if mode != 0 {
		s += "@" + strconv.FormatUint(uint64(mode), 8)
	}
	if mtime != 0 {
		s += "^" + strconv.FormatInt(mtime, 10)
	}
	return s
}

func zzvStatOf(mode os.FileMode, err1 error, mt time.Time, err2 error) string {
	if err1 != nil || err2 != nil {
		return "!stat"
	}
	var sec int64
	if !mt.IsZero() {
		sec = mt.Unix()
	}
	return zzvStat(uint32(mode&0xFFF), sec)
}

func zzvMDir() *zzvM          { return &zzvM{dir: true} }
func zzvMFile(id byte) *zzvM { return &zzvM{data: []byte{id}} }

// zzvHex renders file content, e.g. "#0142".
func zzvHex(b string) string {
	const digits = "0123456789abcdef"
	out := []byte{'#'}
	for i := 0; i < len(b); i++ {
		out = append(out, digits[b[i]>>4], digits[b[i]&15])
	}
	return string(out)
}

func (m *zzvM) get(name string) *zzvM {
	for i, n := range m.names {
		if n == name {
			return m.kids[i]
		}
	}
	return nil
}

func (m *zzvM) put(name string, k *zzvM) {
	for i, n := range m.names {
		if n == name {
			m.kids[i] = k
			return
		}
	}
	m.names = append(m.names, name)
	m.kids = append(m.kids, k)
}

func (m *zzvM) del(name string) {
	for i, n := range m.names {
		if n == name {
			m.names = append(m.names[:i:i], m.names[i+1:]...)
			m.kids = append(m.kids[:i:i], m.kids[i+1:]...)
			return
		}
	}
}

func (m *zzvM) clone() *zzvM {
	c := &zzvM{dir: m.dir, data: append([]byte(nil), m.data...), mode: m.mode, mtime: m.mtime}
	for i := range m.names {
		c.names = append(c.names, m.names[i])
		c.kids = append(c.kids, m.kids[i].clone())
	}
	return c
}

func zzvParts(p string) []string {
	var out []string
	for _, s := range strings.Split(p, "/") {
		if s != "" {
			out = append(out, s)
		}
	}
	return out
}

// walk resolves the components below m; nil if a component is missing or a file is in the way.
func (m *zzvM) walk(parts []string) *zzvM {
	cur := m
	for _, p := range parts {
		if cur == nil || !cur.dir {
			return nil
		}
		cur = cur.get(p)
	}
	return cur
}

// render: canonical text of a tree, e.g. "{a:{d:{x:#1}} b:{}}".
func (m *zzvM) render() string {
	if !m.dir {
		return zzvHex(string(m.data)) + zzvStat(m.mode, m.mtime)
	}
	idx := make([]int, len(m.names))
	for i := range idx {
		idx[i] = i
	}
	sort.Slice(idx, func(a, b int) bool { return m.names[idx[a]] < m.names[idx[b]] })
	var sb strings.Builder
	sb.WriteString("{")
	for k, i := range idx {
		if k > 0 {
			sb.WriteString(" ")
		}
		sb.WriteString(m.names[i])
		sb.WriteString(":")
		sb.WriteString(m.kids[i].render())
	}
	sb.WriteString("}")
	sb.WriteString(zzvStat(m.mode, m.mtime))
	return sb.String()
}

// ---- model operations (true = the operation succeeds; on false the tree is unchanged) -------------------------

func (m *zzvM) mkdir(p string, parents bool) bool {
	parts := zzvParts(p)
	if len(parts) == 0 {
		return parents // "mkdir /": exists already
	}
	// first pass: feasibility (a failing operation leaves the model unchanged)
	cur := m
	for i, d := range parts {
		next := cur.get(d)
		if next == nil {
			if !parents && i < len(parts)-1 {
				return false
			}
			break // everything below is new
		}
		if i == len(parts)-1 {
			return next.dir && parents
		}
		if !next.dir {
			return false
		}
		cur = next
	}
	// second pass: apply
	cur = m
	for _, d := range parts[:len(parts)-1] {
		next := cur.get(d)
		if next == nil {
			next = zzvMDir()
			cur.put(d, next)
		}
		cur = next
	}
	last := parts[len(parts)-1]
	if ex := cur.get(last); ex != nil {
		return ex.dir && parents
	}
	cur.put(last, zzvMDir())
	return true
}

func (m *zzvM) putFile(p string, id byte) bool {
	parts := zzvParts(p)
	if len(parts) == 0 || strings.HasSuffix(p, "/") {
		return false
	}
	par := m.walk(parts[:len(parts)-1])
	if par == nil || !par.dir || par.get(parts[len(parts)-1]) != nil {
		return false
	}
	par.put(parts[len(parts)-1], zzvMFile(id))
	return true
}

func (m *zzvM) unlink(p string) bool {
	parts := zzvParts(p)
	if len(parts) == 0 {
		return false
	}
	par := m.walk(parts[:len(parts)-1])
	if par == nil || !par.dir || par.get(parts[len(parts)-1]) == nil {
		return false
	}
	par.del(parts[len(parts)-1])
	return true
}

// mv: the entry at src appears at the destination and disappears from the source. dst names the new entry;
// if dst is an existing directory (or ends in '/') the entry moves into it under its old name; an existing
// file at the destination is replaced.
func (m *zzvM) mv(src, dst string) bool {
	sp := zzvParts(src)
	if len(sp) == 0 {
		return false
	}
	srcDir := m.walk(sp[:len(sp)-1])
	if srcDir == nil || !srcDir.dir {
		return false
	}
	srcName := sp[len(sp)-1]
	obj := srcDir.get(srcName)
	if obj == nil {
		return false
	}
	dp := zzvParts(dst)
	var dstDir *zzvM
	dstName := srcName
	if strings.HasSuffix(dst, "/") {
		dstDir = m.walk(dp)
	} else {
		if len(dp) == 0 {
			return false
		}
		dstDir = m.walk(dp[:len(dp)-1])
		dstName = dp[len(dp)-1]
	}
	if dstDir == nil || !dstDir.dir {
		return false
	}
	ex := dstDir.get(dstName)
	switch {
	case ex == nil:
	case ex == obj:
		return true // onto itself (directories onto themselves are excluded by the scenario)
	case ex.dir:
		// the named destination is a directory: the entry moves into it under its old name, which must be free
		dstDir, dstName = ex, srcName
		if dstDir.get(dstName) != nil {
			return false
		}
	default:
		dstDir.del(dstName) // a file at the destination is replaced
	}
	srcDir.del(srcName)
	dstDir.put(dstName, obj)
	return true
}

func (m *zzvM) contains(x *zzvM) bool {
	if m == x {
		return true
	}
	for _, k := range m.kids {
		if k.contains(x) {
			return true
		}
	}
	return false
}

// mvIntoItself: src is a directory and the destination resolves to src itself or to a place below it
// (mv /a /, mv /a /a, mv /a/d /a/, mv /a /a/d/...). POSIX rejects these; MFS is not claimed to.
func (m *zzvM) mvIntoItself(src, dst string) bool {
	obj := m.walk(zzvParts(src))
	if obj == nil || !obj.dir {
		return false
	}
	dp := zzvParts(dst)
	var dstDir *zzvM
	if strings.HasSuffix(dst, "/") {
		dstDir = m.walk(dp)
		if dstDir != nil && dstDir.dir {
			if ex := dstDir.get(zzvParts(src)[len(zzvParts(src))-1]); ex != nil && ex.dir {
				dstDir = ex
			}
		}
	} else if len(dp) > 0 {
		dstDir = m.walk(dp[:len(dp)-1])
		if dstDir != nil && dstDir.dir {
			if ex := dstDir.get(dp[len(dp)-1]); ex != nil && ex.dir {
				dstDir = ex
			}
		}
	}
	return dstDir != nil && obj.contains(dstDir)
}

// ---- the MFS side -------------------------------------------------------------------------------------------------

type zzvFS struct {
	ds        *zzvDag
	root      *Root
	initial   cid.Cid // root CID the republisher starts from
	published []cid.Cid
}

func zzvFileNode(id byte) ipld.Node {
	return dag.NodeWithData(ft.FilePBData([]byte{id}, 1))
}

func (fs *zzvFS) publish(ctx context.Context, c cid.Cid) error {
	fs.published = append(fs.published, c)
	return nil
}

func zzvNewFS() *zzvFS {
	if verifrt.Symbolic() {
		// packages os, io/fs and internal/oserror are never initialised under the engine (their error variables
		// are nil there); MFS and the UnixFS directories compare against os.ErrNotExist / os.ErrExist
		if iofs.ErrNotExist == nil {
			iofs.ErrNotExist = errors.New("file does not exist")
		}
		if iofs.ErrExist == nil {
			iofs.ErrExist = errors.New("file already exists")
		}
		os.ErrNotExist = iofs.ErrNotExist
		os.ErrExist = iofs.ErrExist
	}
	fs := &zzvFS{ds: &zzvDag{}}
	zzvCurDS = fs.ds
	r, err := NewEmptyRoot(context.Background(), fs.ds, fs.publish, nil)
	if err != nil {
		panic(err)
	}
	fs.root = r
	if nd, err := r.GetDirectory().GetNode(); err == nil {
		fs.initial = nd.Cid()
	}
	return fs
}

// build creates the model tree m in the MFS with the public operations.
func (fs *zzvFS) build(m *zzvM, prefix string) {
	for i, n := range m.names {
		p := prefix + "/" + n
		if m.kids[i].dir {
			if err := Mkdir(fs.root, p, MkdirOpts{}); err != nil {
				panic(err)
			}
			fs.build(m.kids[i], p)
		} else if err := PutNode(fs.root, p, zzvFileNode(m.kids[i].data[0])); err != nil {
			panic(err)
		}
	}
}

// viaAPI renders what MFS shows through Lookup / ListNames / Child / GetNode.
func (fs *zzvFS) viaAPI() string {
	return zzvRenderDir(fs.root.GetDirectory())
}

// zzvCurDS: the DAG service of the current scenario (file contents are read through the UnixFS reader).
var zzvCurDS ipld.DAGService

func zzvFileID(nd ipld.Node) string {
	s, err := zzvReadNode(zzvCurDS, nd)
	if err != nil {
		return "#!read"
	}
	return zzvHex(s)
}

func zzvRenderDir(d *Directory) string {
	names, err := d.ListNames(context.Background())
	if err != nil {
		return "!list:" + err.Error()
	}
	sort.Strings(names)
	var sb strings.Builder
	sb.WriteString("{")
	for k, n := range names {
		if k > 0 {
			sb.WriteString(" ")
		}
		sb.WriteString(n)
		sb.WriteString(":")
		c, err := d.Child(n)
		if err != nil {
			sb.WriteString("!child")
			continue
		}
		switch c := c.(type) {
		case *Directory:
			sb.WriteString(zzvRenderDir(c))
		case *File:
			nd, err := c.GetNode()
			if err != nil {
				sb.WriteString("!node")
				continue
			}
			sb.WriteString(zzvFileID(nd))
			mo, e1 := c.Mode()
			mt, e2 := c.ModTime()
			sb.WriteString(zzvStatOf(mo, e1, mt, e2))
		}
	}
	sb.WriteString("}")
	mo, e1 := d.Mode()
	mt, e2 := d.ModTime()
	sb.WriteString(zzvStatOf(mo, e1, mt, e2))
	return sb.String()
}

// viaDAG renders the DAG below c as read back from the DAG service through the UnixFS directory reader.
func (fs *zzvFS) viaDAG(c cid.Cid) string {
	nd, err := fs.ds.Get(context.Background(), c)
	if err != nil {
		return "!missing"
	}
	pn, ok := nd.(*dag.ProtoNode)
	if !ok {
		return "#raw"
	}
	fsn, err := ft.FSNodeFromBytes(pn.Data())
	if err != nil {
		return "!unixfs"
	}
	stat := zzvStatOf(fsn.Mode(), nil, fsn.ModTime(), nil)
	if fsn.Type() != ft.TDirectory && fsn.Type() != ft.THAMTShard {
		return zzvFileID(nd) + stat
	}
	dir, err := uio.NewDirectoryFromNode(fs.ds, nd)
	if err != nil {
		return "!dir"
	}
	links, err := dir.Links(context.Background())
	if err != nil {
		return "!links"
	}
	sort.Slice(links, func(i, j int) bool { return links[i].Name < links[j].Name })
	var sb strings.Builder
	sb.WriteString("{")
	for k, l := range links {
		if k > 0 {
			sb.WriteString(" ")
		}
		sb.WriteString(l.Name)
		sb.WriteString(":")
		sb.WriteString(fs.viaDAG(l.Cid))
	}
	sb.WriteString("}")
	sb.WriteString(stat)
	return sb.String()
}

// ---- scenario -----------------------------------------------------------------------------------------------------

// initial trees: same-named directories under different parents, a file and a directory at possible
// destinations, an empty directory
func zzvInitial(k int) *zzvM {
	m := zzvMDir()
	switch k {
	case 0:
		m.mkdir("/a/d", true)
		m.putFile("/a/d/x", 1)
		m.mkdir("/b/d", true)
		m.putFile("/b/f", 2)
		m.mkdir("/c", false)
	case 1:
		m.mkdir("/a", false)
		m.putFile("/a/x", 1)
		m.putFile("/a/y", 2)
		m.mkdir("/d", false)
		m.mkdir("/a/d", false)
	}
	return m
}

var zzvPool = []string{
	"/a", "/b", "/c", "/a/d", "/b/d", "/a/d/x", "/b/d/x", "/b/f", "/a/x", "/a/y", "/d",
	"/b/d/", "/c/", "/a/", "/n/m", "/b/f/z", "/a/d/y", "/",
}

// the pool of the two-operation histories
var zzvSmallPool = []string{"/a/d/x", "/b/d/", "/c"}

const (
	zzvKMkdir = iota
	zzvKMkdirP
	zzvKPut
	zzvKMv
	zzvKUnlink
	zzvKFlush
	zzvKChmod
	zzvKTouch
	zzvKWrite
	zzvKFd
	zzvKinds
)

const (
	zzvNewMode  = 0o640
	zzvNewMtime = 1_700_000_000
)

func zzvIsPrefixPath(a, b string) bool {
	pa, pb := zzvParts(a), zzvParts(b)
	if len(pa) > len(pb) {
		return false
	}
	for i := range pa {
		if pa[i] != pb[i] {
			return false
		}
	}
	return true
}

// step performs one operation with symbolic kind and path arguments on both sides and compares.
func zzvStep(fs *zzvFS, m *zzvM) {
	zzvPool := zzvPool
	if verifrt.Param("POOL", 0) == 1 {
		zzvPool = zzvSmallPool
	}
	kind := verifrt.NondetRange("kind", 0, zzvKinds-1)
	p := zzvPool[verifrt.NondetRange("path", 0, len(zzvPool)-1)]
	before := m.render()
	var err error
	want := false
	switch kind {
	case zzvKMkdir:
		want = m.mkdir(p, false)
		err = Mkdir(fs.root, p, MkdirOpts{})
		verifrt.Assert("C19.mkdir-result-matches-model", (err == nil) == want)
	case zzvKMkdirP:
		want = m.mkdir(p, true)
		err = Mkdir(fs.root, p, MkdirOpts{Mkparents: true, Flush: true})
		verifrt.Assert("C19.mkdir-parents-result-matches-model", (err == nil) == want)
	case zzvKPut:
		want = m.putFile(p, 3)
		err = PutNode(fs.root, p, zzvFileNode(3))
		verifrt.Assert("C19.putnode-result-matches-model", (err == nil) == want)
	case zzvKMv:
		dst := zzvPool[verifrt.NondetRange("dst", 0, len(zzvPool)-1)]
		verifrt.Assume(!strings.HasSuffix(p, "/"))
		// outside: moving a directory onto itself or into its own subtree
		verifrt.Assume(!m.mvIntoItself(p, dst))
		want = m.mv(p, dst)
		err = Mv(fs.root, p, dst)
		verifrt.Assert("C19.mv-result-matches-model", (err == nil) == want)
	case zzvKUnlink:
		verifrt.Assume(p != "/")
		want = m.unlink(p)
		dirp, name := zzvSplit(p)
		var d *Directory
		d, err = lookupDir(fs.root, dirp)
		if err == nil {
			err = d.Unlink(name)
		}
		verifrt.Assert("C19.unlink-result-matches-model", (err == nil) == want)
	case zzvKFlush:
		sub := m.walk(zzvParts(p))
		var nd ipld.Node
		nd, err = FlushPath(context.Background(), fs.root, p)
		verifrt.Assert("C19.flushpath-result-matches-model", (err == nil) == (sub != nil))
		want = sub != nil
		if err == nil {
			verifrt.Assert("C19.flushpath-returns-subtree", fs.viaDAG(nd.Cid()) == sub.render())
			// the flush went up to the root and was published: the published root contains the subtree at p
			last := fs.initial
			if len(fs.published) > 0 {
				last = fs.published[len(fs.published)-1]
			}
			c, ok := fs.resolveInDAG(last, zzvParts(p))
			verifrt.Assert("C19.flushpath-published-root-contains-subtree", ok && fs.viaDAG(c) == sub.render())
		}
	}
	switch kind {
	case zzvKChmod:
		nd := m.walk(zzvParts(p))
		want = nd != nil
		if want {
			nd.mode = zzvNewMode
		}
		err = Chmod(fs.root, p, os.FileMode(zzvNewMode))
		verifrt.Assert("C19.chmod-result-matches-model", (err == nil) == want)
	case zzvKTouch:
		nd := m.walk(zzvParts(p))
		want = nd != nil
		if want {
			nd.mtime = zzvNewMtime
		}
		err = Touch(fs.root, p, time.Unix(zzvNewMtime, 0))
		verifrt.Assert("C19.touch-result-matches-model", (err == nil) == want)
	case zzvKWrite:
		// open for writing, overwrite the data byte, close (flushes into the tree)
		nd := m.walk(zzvParts(p))
		want = nd != nil && !nd.dir
		// outside: the modifier refreshes a stored mtime on write
		verifrt.Assume(nd == nil || nd.mtime == 0)
		var n FSNode
		n, err = Lookup(fs.root, p)
		if err == nil {
			f, ok := n.(*File)
			if !ok {
				err = errors.New("not a file")
			} else {
				var fd FileDescriptor
				fd, err = f.Open(context.Background(), Flags{Write: true, Sync: true})
				if err == nil {
					_, err = fd.Write([]byte{9})
					if cerr := fd.Close(); err == nil {
						err = cerr
					}
				}
			}
		}
		if want {
			if len(nd.data) == 0 {
				nd.data = []byte{0}
			}
			nd.data[0] = 9
		}
		verifrt.Assert("C19.write-result-matches-model", (err == nil) == want)
	}
	if kind == zzvKFd {
		// a write descriptor driven through FD steps of WriteAt / Truncate / Flush, then closed
		nd := m.walk(zzvParts(p))
		want = nd != nil && !nd.dir
		verifrt.Assume(nd == nil || nd.mtime == 0)
		var n FSNode
		n, err = Lookup(fs.root, p)
		f, isFile := n.(*File)
		if err == nil && isFile {
			var fd FileDescriptor
			fd, err = f.Open(context.Background(), Flags{Read: true, Write: true, Sync: true})
			if err == nil {
				view := zzvFdScript("C19", f, fs.ds, fd, verifrt.Param("FD", 2))
				err = fd.Close()
				nd.data = []byte(view)
				verifrt.Assert("C19.closed-write-visible", zzvFileShows(f, fs.ds) == view)
			}
		}
		verifrt.Assert("C19.fd-script-result-matches-model", (err == nil && isFile) == want)
	}
	if !want {
		verifrt.Assert("C19.failed-operation-leaves-model-unchanged", m.render() == before)
	}
	got := fs.viaAPI()
	if kind == zzvKMv {
		verifrt.Assert("C19.tree-after-mv-matches-model", got == m.render())
	} else {
		verifrt.Assert("C19.tree-after-operation-matches-model", got == m.render())
	}
	// direct lookups (these go through the directories' child caches, also for names no listing shows)
	for _, q := range zzvPool {
		n, lerr := Lookup(fs.root, q)
		mw := m.walk(zzvParts(q))
		ok := (lerr == nil) == (mw != nil)
		if ok && mw != nil {
			ok = IsDir(n) == mw.dir
		}
		verifrt.Assert("C19.lookup-matches-model", ok)
	}
}

// resolveInDAG follows the path components from the directory node root in the DAG service.
func (fs *zzvFS) resolveInDAG(root cid.Cid, parts []string) (cid.Cid, bool) {
	cur := root
	for _, p := range parts {
		nd, err := fs.ds.Get(context.Background(), cur)
		if err != nil {
			return cid.Undef, false
		}
		dir, err := uio.NewDirectoryFromNode(fs.ds, nd)
		if err != nil {
			return cid.Undef, false
		}
		ch, err := dir.Find(context.Background(), p)
		if err != nil {
			return cid.Undef, false
		}
		cur = ch.Cid()
	}
	return cur, true
}

func zzvSplit(p string) (dir, name string) {
	p = strings.TrimSuffix(p, "/")
	i := strings.LastIndex(p, "/")
	return p[:i+1], p[i+1:]
}

// HarnessC19Ops: a concrete initial tree, then N operations with symbolic kind and path arguments; after
// every operation the tree shown by MFS equals the model; at the end the root is flushed and the DAG read
// back from the DAG service equals the model, and the published CID is the flushed root.
func HarnessC19Ops() {
	N := verifrt.Param("N", 1)
	m := zzvInitial(verifrt.NondetRange("tree", 0, verifrt.Param("TREES", 2)-1))
	fs := zzvNewFS()
	fs.build(m, "")
	verifrt.Assert("C19.initial-tree-matches-model", fs.viaAPI() == m.render())
	for i := 0; i < N; i++ {
		zzvStep(fs, m)
	}
	nd, err := FlushPath(context.Background(), fs.root, "/")
	verifrt.Assert("C19.final-flush-succeeds", err == nil)
	if err == nil {
		verifrt.Assert("C19.flushed-root-dag-matches-model", fs.viaDAG(nd.Cid()) == m.render())
		last := fs.initial
		if len(fs.published) > 0 {
			last = fs.published[len(fs.published)-1]
		}
		verifrt.Assert("C19.published-root-is-flushed-root", last.Equals(nd.Cid()))
	}
	verifrt.Observe("tree", m.render())
	verifrt.Reach("end")
}

// HarnessC19Seq2: two-operation histories over the small pool (parameters N=2, POOL=1).
func HarnessC19Seq2() { HarnessC19Ops() }
