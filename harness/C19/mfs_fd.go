package mfs

// Descriptor scripts shared by the C19 and C20 harnesses: a read-write descriptor is driven through WriteAt /
// Truncate / Flush steps. The reference for the file's content is the descriptor's own view (what reading
// through the descriptor returns - the DagModifier's arithmetic is C10's subject, not re-modelled here); the
// MFS clauses are that a Flush and the Close make exactly that view the File's content.

import (
	"context"
	"io"

	"github.com/ipfs/boxo/internal/verifrt"
	uio "github.com/ipfs/boxo/ipld/unixfs/io"
	ipld "github.com/ipfs/go-ipld-format"
)

// zzvReadNode reads the whole file below nd through the UnixFS reader.
func zzvReadNode(ds ipld.DAGService, nd ipld.Node) (string, error) {
	r, err := uio.NewDagReader(context.Background(), nd, ds)
	if err != nil {
		return "", err
	}
	b, err := io.ReadAll(r)
	return string(b), err
}

// zzvFileShows: what the File's current node contains.
func zzvFileShows(f *File, ds ipld.DAGService) string {
	nd, err := f.GetNode()
	if err != nil {
		return "!node"
	}
	s, err := zzvReadNode(ds, nd)
	if err != nil {
		return "!read"
	}
	return s
}

// zzvFdView: the content as held by the descriptor (pending writes included): the modifier's current DAG, read
// through the UnixFS reader. (Reading through the descriptor itself is avoided: the modifier keeps a stale
// reader across Truncate - C10's subject.)
func zzvFdView(fd FileDescriptor, ds ipld.DAGService) string {
	nd, err := fd.(*fileDescriptor).mod.GetNode()
	if err != nil {
		return "!modnode"
	}
	s, err := zzvReadNode(ds, nd)
	if err != nil {
		return "!modread"
	}
	return s
}

var zzvFdSizes = []int{0, 1, 7}

// zzvFdScript performs S steps on the descriptor fd of file f; every step is WriteAt(one fresh byte, offset 0),
// Truncate(size from {0,1,7}) or Flush (symbolic choice). After a Flush the File must show the descriptor's
// view. Returns the descriptor's view at the end. idp is the assertion-id prefix ("C19" / "C20").
func zzvFdScript(idp string, f *File, ds ipld.DAGService, fd FileDescriptor, S int) string {
	nt := len(zzvFdSizes)
	extended := false
	for i := 0; i < S; i++ {
		k := verifrt.NondetRange("fdop", 0, nt+1)
		switch {
		case k == 0:
			n, err := fd.WriteAt([]byte{byte('A' + i)}, 0)
			verifrt.Assert(idp+".fd-writeat-succeeds", err == nil && n == 1)
		case k <= nt:
			// outside (C10/C08): truncating again after an extension - the modifier's shrink of a file it has
			// extended itself hands a nil node to the DAG service (see the report)
			verifrt.Assume(!extended)
			extended = zzvFdSizes[k-1] > 1
			err := fd.Truncate(int64(zzvFdSizes[k-1]))
			verifrt.Assert(idp+".fd-truncate-succeeds", err == nil)
		default:
			err := fd.Flush()
			verifrt.Assert(idp+".fd-flush-succeeds", err == nil)
			verifrt.Assert(idp+".flushed-write-visible", zzvFileShows(f, ds) == zzvFdView(fd, ds))
		}
	}
	return zzvFdView(fd, ds)
}
