package ipns

import (
	"encoding/binary"
	"time"

	ipns_pb "github.com/ipfs/boxo/ipns/pb"
	"github.com/ipfs/boxo/internal/verifrt"
	"github.com/ipfs/boxo/util"
	"github.com/ipld/go-ipld-prime/datamodel"
	basicnode "github.com/ipld/go-ipld-prime/node/basic"
	"google.golang.org/protobuf/proto"
)

// ---- shared helpers (C27) ----

// zz27MaxSec is 9999-12-31T23:59:59Z: the largest instant RFC3339 can print (needed only for the native run).
const zz27MaxSec = 253402300799

// zz27Attr is the abstract view of one record: what the property orders by.
type zz27Attr struct {
	v2   bool
	seq  uint64
	sec  int64 // expiry, seconds since the Unix epoch
	nsec int64 // 0 <= nsec < 1e9
	b    []byte
}

// zz27ValidityBytes is the Validity string stored in the signed data. Natively it is the real RFC3339Nano text;
// under the engine it is a 12-byte big-endian (sec,nsec) token that the ParseRFC3339 stub decodes again, so no
// calendar arithmetic reaches the solver.
func zz27ValidityBytes(sec, nsec int64) []byte {
	if verifrt.Symbolic() {
		out := make([]byte, 12)
		binary.BigEndian.PutUint64(out[0:8], uint64(sec))
		binary.BigEndian.PutUint32(out[8:12], uint32(nsec))
		return out
	}
	return []byte(util.FormatRFC3339(time.Unix(sec, nsec)))
}

// zz27ParseRFC3339 is bound to util.ParseRFC3339 under the engine.
func zz27ParseRFC3339(s string) (time.Time, error) {
	b := []byte(s)
	if len(b) != 12 {
		return time.Time{}, ErrInvalidValidity
	}
	sec := int64(binary.BigEndian.Uint64(b[0:8]))
	nsec := int64(binary.BigEndian.Uint32(b[8:12]))
	return time.Unix(sec, nsec).UTC(), nil
}

// zz27Node builds the DAG-CBOR map of a record directly (same shape as createNode's result).
func zz27Node(value, validity []byte, vtype, seq, ttl int64) datamodel.Node {
	nb := basicnode.Prototype__Map{}.NewBuilder()
	ma, err := nb.BeginMap(5)
	if err != nil {
		panic(err)
	}
	put := func(k string, n datamodel.Node) {
		if err := ma.AssembleKey().AssignString(k); err != nil {
			panic(err)
		}
		if err := ma.AssembleValue().AssignNode(n); err != nil {
			panic(err)
		}
	}
	put(cborTTLKey, basicnode.NewInt(ttl))
	put(cborValueKey, basicnode.NewBytes(value))
	put(cborSequenceKey, basicnode.NewInt(seq))
	put(cborValidityKey, basicnode.NewBytes(validity))
	put(cborValidityTypeKey, basicnode.NewInt(vtype))
	if err := ma.Finish(); err != nil {
		panic(err)
	}
	return nb.Build()
}

// zz27Record builds a Record with the given attributes. The legacy Value field carries the two
// distinguishing bytes so that, natively, the marshalled records order exactly like those bytes.
func zz27Record(a zz27Attr) *Record {
	node := zz27Node([]byte("/ipfs/bafkqaaa"), zz27ValidityBytes(a.sec, a.nsec), 0, int64(a.seq), 0)
	pb := &ipns_pb.IpnsRecord{Value: append([]byte(nil), a.b...)}
	if a.v2 {
		pb.SignatureV2 = []byte{1}
	}
	if !verifrt.Symbolic() {
		data, err := nodeToCBOR(node)
		if err != nil {
			panic(err)
		}
		pb.Data = data
	} else {
		pb.Data = []byte{0xa5}
	}
	return &Record{pb: pb, node: node}
}

func zz27Attrs(n int) []zz27Attr {
	as := make([]zz27Attr, n)
	// From ALLV2FROM records on, every record carries a v2 signature (as every *valid* record does); below
	// that, records with and without v2 signatures are mixed freely.
	allV2 := n >= verifrt.Param("ALLV2FROM", 99)
	for i := range as {
		if allV2 {
			as[i].v2 = true
		} else {
			as[i].v2 = verifrt.NondetRange("v2", 0, 1) == 1 // a shape (nil / non-nil signature): forks
		}
		as[i].seq = verifrt.NondetU64("seq")
		as[i].sec = verifrt.NondetI64("sec")
		as[i].nsec = verifrt.NondetI64("nsec")
		as[i].b = verifrt.NondetBytes("b", 2)
		verifrt.Assume(as[i].sec >= 0)
		verifrt.Assume(as[i].sec <= zz27MaxSec)
		verifrt.Assume(as[i].nsec >= 0)
		verifrt.Assume(as[i].nsec < 1000000000)
	}
	// identical bytes are the same record (no fork: the implication is one term)
	for i := range as {
		for j := 0; j < i; j++ {
			diffB := uint64(as[i].b[0]^as[j].b[0]) | uint64(as[i].b[1]^as[j].b[1])
			diffA := (as[i].seq ^ as[j].seq) | uint64(as[i].sec^as[j].sec) | uint64(as[i].nsec^as[j].nsec)
			if as[i].v2 != as[j].v2 {
				diffA |= 1
			}
			verifrt.Assume(verifrt.Ite(diffB == 0, diffA, 0) == 0)
		}
	}
	return as
}

func zz27W(a zz27Attr) uint16 { return uint16(a.b[0])<<8 | uint16(a.b[1]) }

// zz27Ref is the reference order from the property text: (has v2 signature, sequence, expiry), then bytes.
// It returns 0 (a<b), 1 (equal), 2 (a>b); built as one term, never forks.
func zz27Ref(a, b zz27Attr, withBytes bool) uint64 {
	r := uint64(1)
	if withBytes {
		wa, wb := zz27W(a), zz27W(b)
		r = verifrt.Ite(wa != wb, verifrt.Ite(wa > wb, 2, 0), 1)
	}
	r = verifrt.Ite(a.nsec != b.nsec, verifrt.Ite(a.nsec > b.nsec, 2, 0), r)
	r = verifrt.Ite(a.sec != b.sec, verifrt.Ite(a.sec > b.sec, 2, 0), r)
	r = verifrt.Ite(a.seq != b.seq, verifrt.Ite(a.seq > b.seq, 2, 0), r)
	if a.v2 != b.v2 { // concrete
		if a.v2 {
			r = 2
		} else {
			r = 0
		}
	}
	return r
}

// ---- entries ----

// HarnessC27Compare: compare agrees with the reference order on (v2, seq, expiry) for three symbolic records,
// is antisymmetric and transitive.
func HarnessC27Compare() {
	as := zz27Attrs(3)
	r := []*Record{zz27Record(as[0]), zz27Record(as[1]), zz27Record(as[2])}
	var c [3][3]int
	for i := 0; i < 3; i++ {
		for j := 0; j < 3; j++ {
			if i == j && i > 0 {
				continue // reflexivity is checked on one record
			}
			v, err := compare(r[i], r[j])
			verifrt.Assert("C27.compare-no-error", err == nil)
			c[i][j] = v
		}
	}
	verifrt.Observe("c01", c[0][1])
	verifrt.Observe("c12", c[1][2])
	verifrt.Observe("c02", c[0][2])
	for i := 0; i < 3; i++ {
		if i == 0 {
			verifrt.Assert("C27.compare-reflexive", c[i][i] == 0)
		}
		for j := 0; j < 3; j++ {
			if i == j {
				continue
			}
			verifrt.Assert("C27.compare-matches-reference", uint64(c[i][j]+1) == zz27Ref(as[i], as[j], false))
			verifrt.Assert("C27.compare-antisymmetric", c[i][j] == -c[j][i])
		}
	}
	if c[0][1] >= 0 && c[1][2] >= 0 {
		verifrt.Assert("C27.compare-transitive", c[0][2] >= 0)
		if c[0][1] > 0 || c[1][2] > 0 {
			verifrt.Assert("C27.compare-transitive-strict", c[0][2] > 0)
		}
	}
	verifrt.Reach("end")
}

// zz27CheckMax asserts that index sel is maximal for the reference order (ties by bytes).
func zz27CheckMax(as []zz27Attr, sel int) {
	verifrt.Assert("C27.select-index-in-range", sel >= 0 && sel < len(as))
	for j := range as {
		verifrt.Assert("C27.selected-is-maximal", zz27Ref(as[sel], as[j], true) >= 1)
	}
}

// HarnessC27SelectMax: selectRecord over N records returns a maximal one.
func HarnessC27SelectMax() {
	n := verifrt.NondetRange("n", 1, verifrt.Param("N", 4))
	as := zz27Attrs(n)
	recs := make([]*Record, n)
	vals := make([][]byte, n)
	for i := range as {
		recs[i] = zz27Record(as[i])
		vals[i] = as[i].b
	}
	sel, err := selectRecord(recs, vals)
	verifrt.Assert("C27.select-no-error", err == nil)
	verifrt.Observe("sel", sel)
	zz27CheckMax(as, sel)
	verifrt.Reach("end")
}

func zz27Perms(n int) [][]int {
	if n == 1 {
		return [][]int{{0}}
	}
	var out [][]int
	for _, p := range zz27Perms(n - 1) {
		for pos := 0; pos <= len(p); pos++ {
			q := make([]int, 0, n)
			q = append(q, p[:pos]...)
			q = append(q, n-1)
			q = append(q, p[pos:]...)
			out = append(out, q)
		}
	}
	return out
}

// HarnessC27SelectPerm: the bytes of the selected record are the same under every permutation of the input.
func HarnessC27SelectPerm() {
	n := verifrt.NondetRange("n", 2, verifrt.Param("N", 3))
	as := zz27Attrs(n)
	base := make([]*Record, n)
	for i := range as {
		base[i] = zz27Record(as[i])
	}
	// Up to ALLPERMS records every permutation is tried. Above that only the identity and the n-1 adjacent
	// transpositions: they generate the symmetric group, and since the records are arbitrary (the symbolic
	// domain is closed under reordering) invariance under each generator for all inputs implies invariance
	// under every permutation.
	perms := zz27Perms(n)
	if n > verifrt.Param("ALLPERMS", 3) {
		perms = perms[:0]
		id := make([]int, n)
		for i := range id {
			id[i] = i
		}
		perms = append(perms, id)
		for t := 0; t+1 < n; t++ {
			q := append([]int(nil), id...)
			q[t], q[t+1] = q[t+1], q[t]
			perms = append(perms, q)
		}
	}
	var first []byte
	for k, p := range perms {
		recs := make([]*Record, n)
		vals := make([][]byte, n)
		for i, src := range p {
			recs[i] = base[src]
			vals[i] = as[src].b
		}
		sel, err := selectRecord(recs, vals)
		verifrt.Assert("C27.select-no-error", err == nil)
		verifrt.Assert("C27.select-index-in-range", sel >= 0 && sel < n)
		if k == 0 {
			first = vals[sel]
			verifrt.Observe("first", first)
			continue
		}
		verifrt.Assert("C27.order-independent", (first[0]^vals[sel][0])|(first[1]^vals[sel][1]) == 0)
	}
	verifrt.Reach("end")
}

// zz27Vals are the encoded records handed to Validator.Select in the current path (engine only).
var (
	zz27Vals [][]byte
	zz27Recs []*Record
)

// zz27Unmarshal is bound to UnmarshalRecord under the engine: decoding is an opaque invertible codec, the
// record belonging to the given encoded bytes is returned (matched by slice identity).
func zz27Unmarshal(data []byte) (*Record, error) {
	for i, v := range zz27Vals {
		if len(v) > 0 && len(data) > 0 && &v[0] == &data[0] {
			return zz27Recs[i], nil
		}
	}
	return nil, ErrInvalidRecord
}

// HarnessC27ValidatorSelect: Validator.Select (decode + select) returns the index of a maximal record.
func HarnessC27ValidatorSelect() {
	n := verifrt.NondetRange("n", 1, verifrt.Param("N", 3))
	as := zz27Attrs(n)
	recs := make([]*Record, n)
	vals := make([][]byte, n)
	for i := range as {
		recs[i] = zz27Record(as[i])
		if verifrt.Symbolic() {
			vals[i] = as[i].b
		} else {
			enc, err := proto.Marshal(recs[i].pb)
			if err != nil {
				panic(err)
			}
			vals[i] = enc
		}
	}
	zz27Vals, zz27Recs = vals, recs
	sel, err := Validator{}.Select("k", vals)
	verifrt.Assert("C27.select-no-error", err == nil)
	verifrt.Observe("sel", sel)
	zz27CheckMax(as, sel)
	verifrt.Reach("end")
}
