package mfs

import (
	"context"

	"github.com/ipfs/boxo/internal/verifrt"
	dag "github.com/ipfs/boxo/ipld/merkledag"
	ft "github.com/ipfs/boxo/ipld/unixfs"
)

// HarnessC20FdSeq: the sequential half of "no acknowledged write is lost": one read-write descriptor on a File
// (stub parent, in-memory DAG service) is driven through S steps of WriteAt / Truncate / Flush and closed.
// After every Flush and after the Close the File shows exactly what the descriptor held, the parent was told
// about that node, and a following read-only descriptor leaves it alone.
func HarnessC20FdSeq() {
	S := verifrt.Param("S", 3)
	ds := &zzvDag{}
	par := &zzvParent{ctx: context.Background()}
	node0 := dag.NodeWithData(ft.FilePBData([]byte{1}, 1))
	f, err := NewFile("f", node0, par, ds, nil)
	if err != nil {
		panic(err)
	}
	syncFlag := verifrt.NondetRange("sync", 0, 1) == 1
	fd, err := f.Open(context.Background(), Flags{Read: true, Write: true, Sync: syncFlag})
	verifrt.Assert("C20.fd-open-succeeds", err == nil)
	view := zzvFdScript("C20", f, ds, fd, S)
	verifrt.Assert("C20.fd-close-succeeds", fd.Close() == nil)
	verifrt.Assert("C20.closed-write-visible", zzvFileShows(f, ds) == view)
	nd, _ := f.GetNode()
	if syncFlag {
		c, ok := par.last()
		verifrt.Assert("C20.fd-parent-told-about-closed-node", ok && c.Name == "f" && zzvSameNode(c.Node, nd))
	}
	// the descriptor lock is free again and a reader does not disturb the content
	rd, err := f.Open(context.Background(), Flags{Read: true})
	verifrt.Assert("C20.fd-reopen-succeeds", err == nil)
	if err == nil {
		verifrt.Assert("C20.fd-reader-close-succeeds", rd.Close() == nil)
	}
	verifrt.Assert("C20.fd-content-stable-after-reader", zzvFileShows(f, ds) == view)
	verifrt.Assert("C20.fd-sync-returns", f.Sync() == nil)
	verifrt.Observe("view", view)
	verifrt.Reach("end")
}
