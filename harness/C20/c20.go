package mfs

import (
	"context"
	"os"
	"runtime"
	"sync"
	"time"

	chunker "github.com/ipfs/boxo/chunker"
	"github.com/ipfs/boxo/internal/verifrt"
	dag "github.com/ipfs/boxo/ipld/merkledag"
	ft "github.com/ipfs/boxo/ipld/unixfs"
	cid "github.com/ipfs/go-cid"
	ipld "github.com/ipfs/go-ipld-format"
)

// ---- environment stubs -------------------------------------------------------------------------------------

// zzvStore: a DAG service that only records what was added (nothing in the encoded operations reads back).
type zzvStore struct {
	mu    zzvMu20
	added []ipld.Node
}

// zzvMu20 is a real mutex natively; under the engine harness code between two synchronisation points of the
// code under test runs atomically, so harness bookkeeping adds no scheduling points of its own. With model set
// it is a real (engine-modelled) mutex in both worlds.
type zzvMu20 struct {
	m     sync.Mutex
	model bool
}

func (m *zzvMu20) Lock() {
	if m.model || !verifrt.Symbolic() {
		m.m.Lock()
	}
}

func (m *zzvMu20) Unlock() {
	if m.model || !verifrt.Symbolic() {
		m.m.Unlock()
	}
}

func (s *zzvStore) Add(ctx context.Context, n ipld.Node) error {
	s.mu.Lock()
	s.added = append(s.added, n)
	s.mu.Unlock()
	return nil
}

func (s *zzvStore) AddMany(ctx context.Context, ns []ipld.Node) error {
	for _, n := range ns {
		s.Add(ctx, n)
	}
	return nil
}

func (s *zzvStore) Get(ctx context.Context, c cid.Cid) (ipld.Node, error) {
	return nil, ipld.ErrNotFound{Cid: c}
}

func (s *zzvStore) GetMany(ctx context.Context, cs []cid.Cid) <-chan *ipld.NodeOption {
	out := make(chan *ipld.NodeOption)
	close(out)
	return out
}

func (s *zzvStore) Remove(ctx context.Context, c cid.Cid) error         { return nil }
func (s *zzvStore) RemoveMany(ctx context.Context, cs []cid.Cid) error { return nil }

func (s *zzvStore) has(n ipld.Node) bool {
	s.mu.Lock()
	defer s.mu.Unlock()
	for _, x := range s.added {
		if x == n {
			return true
		}
	}
	return false
}

// zzvParent stands in for the parent Directory. Its mutex models Directory.lock: updateChildEntry takes it (as
// Directory.updateChildEntry does) and dirSync reads the child's node under it (as Directory.sync / GetNode /
// ForEachEntry do for every cached child).
type zzvParent struct {
	mu      zzvMu20 // modelled as a lock under the engine only in scenarios with a dirSync (otherwise nothing contends)
	updates []child
	synced  ipld.Node
	ctx     context.Context
}

func (p *zzvParent) updateChildEntry(c child) error {
	p.mu.Lock()
	p.updates = append(p.updates, c)
	p.mu.Unlock()
	return nil
}

func (p *zzvParent) getChunker() chunker.SplitterGen { return nil }
func (p *zzvParent) getFetchTimeout() time.Duration  { return 0 }
func (p *zzvParent) getContext() context.Context     { return p.ctx }

func (p *zzvParent) dirSync(f *File) error {
	p.mu.Lock()
	defer p.mu.Unlock()
	nd, err := f.GetNode()
	p.synced = nd
	return err
}

func (p *zzvParent) last() (child, bool) {
	p.mu.Lock()
	defer p.mu.Unlock()
	if len(p.updates) == 0 {
		return child{}, false
	}
	return p.updates[len(p.updates)-1], true
}

// ---- the world -------------------------------------------------------------------------------------------------

const (
	zzvKindFile    = 0 // dag-pb UnixFS file node with mode and mtime
	zzvKindRaw     = 1 // raw leaf
	zzvKindSymlink = 2 // dag-pb UnixFS symlink node: Open fails after it has taken the descriptor lock
)

const (
	zzvMode0 = os.FileMode(0o644)
	zzvModeA = os.FileMode(0o600)
	zzvModeB = os.FileMode(0o755)
)

var (
	zzvTime0 = time.Unix(1_000_000, 0)
	zzvTimeA = time.Unix(2_000_000, 0)
	zzvTimeB = time.Unix(3_000_000, 500)
)

type zzvWorld struct {
	kind  int
	f     *File
	par   *zzvParent
	store *zzvStore
	node0 ipld.Node
}

func zzvNewWorld(kind int, dirLock bool) *zzvWorld {
	w := &zzvWorld{kind: kind, par: &zzvParent{ctx: context.Background()}, store: &zzvStore{}}
	w.par.mu.model = dirLock
	switch kind {
	case zzvKindFile:
		w.node0 = dag.NodeWithData(ft.FilePBDataWithStat(nil, 0, zzvMode0, zzvTime0))
	case zzvKindRaw:
		w.node0 = dag.NewRawNode([]byte("raw"))
	case zzvKindSymlink:
		d, err := ft.SymlinkData("target")
		if err != nil {
			panic(err)
		}
		w.node0 = dag.NodeWithData(d)
	}
	f, err := NewFile("f", w.node0, w.par, w.store, nil)
	if err != nil {
		panic(err)
	}
	w.f = f
	return w
}

// ---- operations ------------------------------------------------------------------------------------------------

const (
	zzvOpMode = iota
	zzvOpModTime
	zzvOpSize
	zzvOpGetNode
	zzvOpSetMode
	zzvOpSetModTime
	zzvOpSync
	zzvOpOpenReadClose
	zzvOpOpenWriteFlushClose
	zzvOpOpenWriteClose // descriptor without the Sync flag: Close flushes into the File only
	zzvOpFileFlush
	zzvOpDirSync
	zzvOpOpenNeither
	zzvNumOps
)

type zzvRes struct {
	op      int
	err     error // error of the main call
	err2    error // error of a follow-up call (Flush / Close)
	mode    os.FileMode
	mtime   time.Time
	size    int64
	node    ipld.Node
	flushed ipld.Node // node installed by a write descriptor
}

func zzvIsWriter(op int) bool {
	switch op {
	case zzvOpSetMode, zzvOpSetModTime, zzvOpOpenWriteFlushClose, zzvOpOpenWriteClose, zzvOpFileFlush:
		return true
	}
	return false
}

func zzvIsMetaWriter(op int) bool { return op == zzvOpSetMode || op == zzvOpSetModTime }

// run performs operation op; who (0/1) selects the value a metadata writer writes.
func (w *zzvWorld) run(op, who int) (r zzvRes) {
	r.op = op
	f := w.f
	switch op {
	case zzvOpMode:
		r.mode, r.err = f.Mode()
	case zzvOpModTime:
		r.mtime, r.err = f.ModTime()
	case zzvOpSize:
		r.size, r.err = f.Size()
	case zzvOpGetNode:
		r.node, r.err = f.GetNode()
	case zzvOpSetMode:
		r.mode = zzvModeA
		if who == 1 {
			r.mode = zzvModeB
		}
		r.err = f.SetMode(r.mode)
	case zzvOpSetModTime:
		r.mtime = zzvTimeA
		if who == 1 {
			r.mtime = zzvTimeB
		}
		r.err = f.SetModTime(r.mtime)
	case zzvOpSync:
		r.err = f.Sync()
	case zzvOpOpenReadClose:
		var fd FileDescriptor
		fd, r.err = f.Open(context.Background(), Flags{Read: true})
		if r.err == nil {
			r.err2 = fd.Close()
		}
	case zzvOpOpenWriteFlushClose, zzvOpOpenWriteClose:
		var fd FileDescriptor
		fd, r.err = f.Open(context.Background(), Flags{Write: true, Sync: op == zzvOpOpenWriteFlushClose})
		if r.err == nil {
			if op == zzvOpOpenWriteFlushClose {
				r.err2 = fd.Flush()
			}
			r.flushed, _ = fd.(*fileDescriptor).mod.GetNode()
			if err := fd.Close(); err != nil && r.err2 == nil {
				r.err2 = err
			}
			if err := fd.Close(); err != ErrClosed && r.err2 == nil {
				r.err2 = context.Canceled // second Close must report ErrClosed (and must not unlock twice)
			}
		}
	case zzvOpFileFlush:
		r.err = f.Flush()
	case zzvOpDirSync:
		r.err = w.par.dirSync(f)
	case zzvOpOpenNeither:
		_, r.err = f.Open(context.Background(), Flags{})
	}
	return r
}

// await waits for done; under the engine the watchdog timer can only fire when every goroutine is blocked,
// i.e. exactly in a deadlock; natively it is a generous real-time bound.
func zzvAwait(done chan struct{}) bool {
	d := time.Hour
	if !verifrt.Symbolic() {
		d = 5 * time.Second
	}
	t := time.NewTimer(d)
	defer t.Stop()
	select {
	case <-done:
		return true
	case <-t.C:
		return false
	}
}

// zzvPair runs op A and op B concurrently on a fresh file, then a final round of reads, and evaluates the
// oracle. Returns the id of the first violated clause.
// With reps > 1 (native stress only) each goroutine repeats its operation reps times and only the liveness
// clauses are evaluated.
func zzvPair(kind, opA, opB, reps int) (bad string) {
	check := func(id string, ok bool) {
		if !ok && bad == "" {
			bad = id
		}
	}
	w := zzvNewWorld(kind, opA == zzvOpDirSync || opB == zzvOpDirSync)
	var ra, rb zzvRes
	// completion is signalled through one buffered channel: two scheduling points per goroutine
	done := make(chan struct{}, 2)
	go func() {
		for i := 0; i < reps; i++ {
			ra = w.run(opA, 0)
		}
		done <- struct{}{}
	}()
	go func() {
		for i := 0; i < reps; i++ {
			rb = w.run(opB, 1)
		}
		done <- struct{}{}
	}()
	if !zzvAwait(done) || !zzvAwait(done) {
		return "C20.no-deadlock"
	}

	// final round from one goroutine: both locks must be free again and the state readable
	var fin struct {
		syncErr, dirErr, modeErr, mtErr error
		node                            ipld.Node
		mode                            os.FileMode
		mtime                           time.Time
	}
	done2 := make(chan struct{})
	go func() {
		defer close(done2)
		fin.syncErr = w.f.Sync() // needs the descriptor lock exclusively: fails to return if one leaked
		fin.dirErr = w.par.dirSync(w.f)
		fin.node, _ = w.f.GetNode()
		fin.mode, fin.modeErr = w.f.Mode()
		fin.mtime, fin.mtErr = w.f.ModTime()
	}()
	if !zzvAwait(done2) {
		return "C20.locks-released-after-operations"
	}
	if reps > 1 {
		return ""
	}

	// ---- per-operation results
	for _, r := range []zzvRes{ra, rb} {
		switch r.op {
		case zzvOpSize, zzvOpGetNode, zzvOpSync, zzvOpDirSync, zzvOpSetMode, zzvOpSetModTime:
			check("C20.operation-succeeds", r.err == nil)
		case zzvOpOpenNeither:
			check("C20.open-without-mode-rejected", r.err != nil)
		case zzvOpOpenReadClose, zzvOpOpenWriteFlushClose, zzvOpOpenWriteClose, zzvOpFileFlush:
			if kind == zzvKindSymlink {
				check("C20.open-symlink-rejected", r.err != nil)
			} else {
				check("C20.operation-succeeds", r.err == nil && r.err2 == nil)
			}
		case zzvOpMode, zzvOpModTime:
			if kind != zzvKindRaw {
				check("C20.operation-succeeds", r.err == nil)
			}
		}
	}

	// ---- values seen by concurrent readers: the initial value or one written by the other operation
	check("C20.reader-sees-initial-or-written-mode", zzvModeOK(kind, ra, rb) && zzvModeOK(kind, rb, ra))
	check("C20.reader-sees-initial-or-written-mtime", zzvMtimeOK(kind, ra, rb) && zzvMtimeOK(kind, rb, ra))

	// ---- final state
	writers := 0
	for _, r := range []zzvRes{ra, rb} {
		if zzvIsWriter(r.op) && r.err == nil {
			writers++
		}
	}
	check("C20.final-node-readable", fin.node != nil && fin.syncErr == nil && fin.dirErr == nil)
	if writers == 0 {
		check("C20.readers-leave-node-unchanged", zzvSameNode(fin.node, w.node0))
	} else {
		// the node is one that a writer installed, and it was handed to the DAG service first
		check("C20.final-node-was-stored", w.store.has(fin.node))
	}
	if kind != zzvKindSymlink {
		// acknowledged metadata writes
		ma, mb := ra.op == zzvOpSetMode, rb.op == zzvOpSetMode
		ta, tb := ra.op == zzvOpSetModTime, rb.op == zzvOpSetModTime
		flushers := 0
		for _, r := range []zzvRes{ra, rb} {
			if zzvIsWriter(r.op) && !zzvIsMetaWriter(r.op) {
				flushers++
			}
		}
		switch {
		case flushers > 0:
			// a descriptor opened before the metadata write may legitimately re-install its own (older)
			// view when it is flushed: last writer wins, nothing to demand about the metadata
		case ma && mb:
			check("C20.setmode-visible-afterwards", fin.modeErr == nil && (fin.mode == ra.mode || fin.mode == rb.mode))
		case ta && tb:
			check("C20.setmodtime-visible-afterwards", fin.mtErr == nil && (fin.mtime.Equal(ra.mtime) || fin.mtime.Equal(rb.mtime)))
		case (ma && tb) || (ta && mb):
			m, t := ra.mode, rb.mtime
			if mb {
				m, t = rb.mode, ra.mtime
			}
			check("C20.concurrent-setmode-and-setmodtime-both-kept", fin.modeErr == nil && fin.mtErr == nil && fin.mode == m && fin.mtime.Equal(t))
		case ma || mb:
			m := ra.mode
			if mb {
				m = rb.mode
			}
			id := "C20.setmode-visible-afterwards"
			if ra.op == zzvOpOpenReadClose || rb.op == zzvOpOpenReadClose {
				id = "C20.read-only-descriptor-keeps-acknowledged-metadata"
			}
			check(id, fin.modeErr == nil && fin.mode == m)
		case ta || tb:
			t := ra.mtime
			if tb {
				t = rb.mtime
			}
			id := "C20.setmodtime-visible-afterwards"
			if ra.op == zzvOpOpenReadClose || rb.op == zzvOpOpenReadClose {
				id = "C20.read-only-descriptor-keeps-acknowledged-metadata"
			}
			check(id, fin.mtErr == nil && fin.mtime.Equal(t))
		}
		// flushed descriptors: with a single writer the flushed node is the file's node
		if writers == 1 && flushers == 1 {
			for _, r := range []zzvRes{ra, rb} {
				if r.flushed != nil {
					check("C20.flushed-node-visible-afterwards", zzvSameNode(fin.node, r.flushed))
				}
			}
		}
		// the parent directory was told about the acknowledged node (single writer that propagates)
		// (a read-only descriptor that re-installs its snapshot is reported by the clause above, not here)
		if writers == 1 && ra.op != zzvOpOpenReadClose && rb.op != zzvOpOpenReadClose {
			for _, r := range []zzvRes{ra, rb} {
				if zzvIsWriter(r.op) && r.op != zzvOpOpenWriteClose && r.err == nil {
					c, ok := w.par.last()
					check("C20.parent-told-about-final-node", ok && c.Name == "f" && c.Node == fin.node)
				}
			}
		}
	}
	return bad
}

func zzvSameNode(a, b ipld.Node) bool {
	pa, ok1 := a.(*dag.ProtoNode)
	pb, ok2 := b.(*dag.ProtoNode)
	if ok1 && ok2 {
		return string(pa.Data()) == string(pb.Data()) && len(pa.Links()) == len(pb.Links())
	}
	if a == nil || b == nil || ok1 != ok2 {
		return a == b
	}
	return string(a.RawData()) == string(b.RawData())
}

// zzvModeOK: if r is a Mode() read, its value is the initial mode or the one the other operation wrote.
func zzvModeOK(kind int, r, o zzvRes) bool {
	if r.op != zzvOpMode || r.err != nil {
		return true
	}
	init := zzvMode0
	if kind != zzvKindFile {
		init = 0
	}
	if r.mode == init {
		return true
	}
	return o.op == zzvOpSetMode && r.mode == o.mode
}

func zzvMtimeOK(kind int, r, o zzvRes) bool {
	if r.op != zzvOpModTime || r.err != nil {
		return true
	}
	init := zzvTime0
	if kind != zzvKindFile {
		init = time.Time{}
	}
	if r.mtime.Equal(init) {
		return true
	}
	return o.op == zzvOpSetModTime && r.mtime.Equal(o.mtime)
}

var zzvPairIDs = []string{
	"C20.no-deadlock",
	"C20.locks-released-after-operations",
	"C20.operation-succeeds",
	"C20.open-without-mode-rejected",
	"C20.open-symlink-rejected",
	"C20.reader-sees-initial-or-written-mode",
	"C20.reader-sees-initial-or-written-mtime",
	"C20.final-node-readable",
	"C20.readers-leave-node-unchanged",
	"C20.final-node-was-stored",
	"C20.setmode-visible-afterwards",
	"C20.setmodtime-visible-afterwards",
	"C20.concurrent-setmode-and-setmodtime-both-kept",
	"C20.read-only-descriptor-keeps-acknowledged-metadata",
	"C20.flushed-node-visible-afterwards",
	"C20.parent-told-about-final-node",
}

// zzvPairs: two goroutines, one operation each (all ordered pairs of the operation set on three kinds of file
// node), under the exploring scheduler with pre-emption at every lock operation. A schedule cannot be forced
// on the native runtime (no hook between the lock acquisitions), so natively the pair is repeated on all
// cores until a clause fails or the budget is used up.
func zzvPairs(lo, hi int) {
	kind := verifrt.NondetRange("kind", 0, verifrt.Param("KINDS", 3)-1)
	opA := verifrt.NondetRange("opA", lo, hi)
	opB := verifrt.NondetRange("opB", 0, zzvNumOps-1)
	bad := zzvPair(kind, opA, opB, 1)
	if !verifrt.Symbolic() {
		defer runtime.GOMAXPROCS(runtime.GOMAXPROCS(8))
		start := time.Now()
		// state clauses: the pair as is, many times
		for i := 0; bad == "" && i < 2000000 && time.Since(start) < 15*time.Second; i++ {
			bad = zzvPair(kind, opA, opB, 1)
		}
		// liveness clauses: the two operations repeated back to back, so that they overlap all the time
		for i := 0; bad == "" && i < 2000000 && time.Since(start) < 40*time.Second; i++ {
			bad = zzvPair(kind, opA, opB, 2000)
		}
	}
	for _, id := range zzvPairIDs {
		verifrt.Assert(id, bad != id)
	}
	verifrt.Observe("kind", kind)
	verifrt.Reach("end")
}

func HarnessC20Readers() { zzvPairs(zzvOpMode, zzvOpGetNode) }
func HarnessC20Meta()    { zzvPairs(zzvOpSetMode, zzvOpSync) }
func HarnessC20Desc()    { zzvPairs(zzvOpOpenReadClose, zzvOpFileFlush) }
func HarnessC20Misc()    { zzvPairs(zzvOpDirSync, zzvOpOpenNeither) }

// the same with at most two pre-emptions (thorough tier)
func HarnessC20Readers2() { zzvPairs(zzvOpMode, zzvOpGetNode) }
func HarnessC20Meta2()    { zzvPairs(zzvOpSetMode, zzvOpSync) }
func HarnessC20Desc2()    { zzvPairs(zzvOpOpenReadClose, zzvOpFileFlush) }
func HarnessC20Misc2()    { zzvPairs(zzvOpDirSync, zzvOpOpenNeither) }
