package mfs

// File operation || parent-directory operation on a REAL mfs tree: Root -> directory "d" -> file "f" over an
// in-memory DAG service. One goroutine performs a file-level operation that propagates upwards (a write
// descriptor's Close / Flush after a write, SetMode, SetModTime), the other an operation of the parent
// Directory that walks its cached children under the directory lock (Flush, ForEachEntry, GetNode; GetNode of the
// root directory, which walks d and through it f).
// Oracle (property text): no deadlock; once both returned, the acknowledged write / mode / mtime is what a fresh
// lookup from the root shows and what the flushed root DAG contains.

import (
	"context"
	"errors"
	"io"
	iofs "io/fs"
	"os"
	"runtime"
	"time"

	"github.com/ipfs/boxo/internal/verifrt"
	dag "github.com/ipfs/boxo/ipld/merkledag"
	ft "github.com/ipfs/boxo/ipld/unixfs"
	uio "github.com/ipfs/boxo/ipld/unixfs/io"
	cid "github.com/ipfs/go-cid"
	ipld "github.com/ipfs/go-ipld-format"
)

// zzvDagL: the in-memory DAG service behind a lock that exists natively only (under the engine harness code
// between two synchronisation points of the code under test is atomic and adds no scheduling points).
type zzvDagL struct {
	mu zzvMu20
	d  zzvDag
}

func (s *zzvDagL) Get(ctx context.Context, c cid.Cid) (ipld.Node, error) {
	s.mu.Lock()
	defer s.mu.Unlock()
	return s.d.Get(ctx, c)
}

func (s *zzvDagL) GetMany(ctx context.Context, cs []cid.Cid) <-chan *ipld.NodeOption {
	s.mu.Lock()
	defer s.mu.Unlock()
	return s.d.GetMany(ctx, cs)
}

func (s *zzvDagL) Add(ctx context.Context, n ipld.Node) error {
	s.mu.Lock()
	defer s.mu.Unlock()
	return s.d.Add(ctx, n)
}

func (s *zzvDagL) AddMany(ctx context.Context, ns []ipld.Node) error {
	s.mu.Lock()
	defer s.mu.Unlock()
	return s.d.AddMany(ctx, ns)
}

func (s *zzvDagL) Remove(ctx context.Context, c cid.Cid) error         { return nil }
func (s *zzvDagL) RemoveMany(ctx context.Context, cs []cid.Cid) error { return nil }

const (
	zzvDirOld = "old"
	zzvDirNew = "NEW"
)

type zzvDirWorld struct {
	ds   *zzvDagL
	root *Root
	d    *Directory
	f    *File
}

func zzvNewDirWorld() *zzvDirWorld {
	if verifrt.Symbolic() {
		// packages os / io/fs are never initialised under the engine; MFS and the UnixFS directories compare
		// against os.ErrNotExist / os.ErrExist
		if iofs.ErrNotExist == nil {
			iofs.ErrNotExist = errors.New("file does not exist")
		}
		if iofs.ErrExist == nil {
			iofs.ErrExist = errors.New("file already exists")
		}
		os.ErrNotExist = iofs.ErrNotExist
		os.ErrExist = iofs.ErrExist
	}
	w := &zzvDirWorld{ds: &zzvDagL{}}
	r, err := NewEmptyRoot(context.Background(), w.ds, nil, nil)
	if err != nil {
		panic(err)
	}
	w.root = r
	if err := Mkdir(r, "/d", MkdirOpts{Flush: true}); err != nil {
		panic(err)
	}
	nd := dag.NodeWithData(ft.FilePBDataWithStat([]byte(zzvDirOld), uint64(len(zzvDirOld)), zzvMode0, zzvTime0))
	if err := PutNode(r, "/d/f", nd); err != nil {
		panic(err)
	}
	dn, err := Lookup(r, "/d")
	if err != nil {
		panic(err)
	}
	w.d = dn.(*Directory)
	fn, err := w.d.Child("f")
	if err != nil {
		panic(err)
	}
	w.f = fn.(*File)
	return w
}

// file-side operations
const (
	zzvDFClose      = iota // Open(write, sync) + WriteAt + Close
	zzvDFFlushClose        // Open(write) + WriteAt + Flush + Close
	zzvDFSetMode
	zzvDFSetModTime
	zzvDFNum
)

// directory-side operations
const (
	zzvDDFlush   = iota // Directory.Flush: getNode(true) -> cacheSync(clean) + propagation
	zzvDDList           // Directory.ForEachEntry: childUnsync + GetNode + Size of every entry under the lock
	zzvDDGetNode        // Directory.GetNode: cacheSync(keep)
	zzvDDRootGetNode    // GetNode of the ROOT directory: root lock -> d.GetNode (d's lock) -> f.GetNode
	zzvDDNum
)

func (w *zzvDirWorld) runFile(op int) error {
	switch op {
	case zzvDFClose, zzvDFFlushClose:
		fd, err := w.f.Open(context.Background(), Flags{Write: true, Sync: op == zzvDFClose})
		if err != nil {
			return err
		}
		n, err := fd.WriteAt([]byte(zzvDirNew), 0)
		if err == nil && n != len(zzvDirNew) {
			err = io.ErrShortWrite
		}
		if err == nil && op == zzvDFFlushClose {
			err = fd.Flush()
		}
		if cerr := fd.Close(); err == nil {
			err = cerr
		}
		return err
	case zzvDFSetMode:
		return w.f.SetMode(zzvModeA)
	case zzvDFSetModTime:
		return w.f.SetModTime(zzvTimeA)
	}
	return nil
}

type zzvDirRes struct {
	err   error
	names []string
	sizes []int64
	node  ipld.Node
}

func (w *zzvDirWorld) runDir(op int) (r zzvDirRes) {
	switch op {
	case zzvDDFlush:
		r.err = w.d.Flush()
	case zzvDDList:
		r.err = w.d.ForEachEntry(context.Background(), func(nl NodeListing) error {
			r.names = append(r.names, nl.Name)
			r.sizes = append(r.sizes, nl.Size)
			return nil
		})
	case zzvDDGetNode:
		r.node, r.err = w.d.GetNode()
	case zzvDDRootGetNode:
		r.node, r.err = w.root.GetDirectory().GetNode()
	}
	return r
}

// zzvDirShown: content / mode / mtime of /d/f as a fresh lookup from the root shows them (content through a
// read-only descriptor).
func (w *zzvDirWorld) shown() (content string, mode os.FileMode, mtime time.Time, ok bool) {
	n, err := Lookup(w.root, "/d/f")
	if err != nil {
		return "!lookup", 0, time.Time{}, false
	}
	f, isFile := n.(*File)
	if !isFile {
		return "!type", 0, time.Time{}, false
	}
	fd, err := f.Open(context.Background(), Flags{Read: true})
	if err != nil {
		return "!open", 0, time.Time{}, false
	}
	b, err := io.ReadAll(fd)
	if err != nil {
		return "!read", 0, time.Time{}, false
	}
	if fd.Close() != nil {
		return "!close", 0, time.Time{}, false
	}
	mode, e1 := f.Mode()
	mtime, e2 := f.ModTime()
	return string(b), mode, mtime, e1 == nil && e2 == nil
}

// zzvDirFlushed: the same as contained in the flushed root DAG, read back from the DAG service.
func (w *zzvDirWorld) flushed() (content string, mode os.FileMode, mtime time.Time, ok bool) {
	ctx := context.Background()
	bad := func(s string) (string, os.FileMode, time.Time, bool) { return s, 0, time.Time{}, false }
	if err := w.root.GetDirectory().Flush(); err != nil {
		return bad("!flush")
	}
	rnd, err := w.root.GetDirectory().GetNode()
	if err != nil {
		return bad("!rootnode")
	}
	rnd, err = w.ds.Get(ctx, rnd.Cid()) // the flushed root must be in the DAG service
	if err != nil {
		return bad("!rootstored")
	}
	rdir, err := uio.NewDirectoryFromNode(w.ds, rnd)
	if err != nil {
		return bad("!rootdir")
	}
	dnd, err := rdir.Find(ctx, "d")
	if err != nil {
		return bad("!d")
	}
	ddir, err := uio.NewDirectoryFromNode(w.ds, dnd)
	if err != nil {
		return bad("!ddir")
	}
	fnd, err := ddir.Find(ctx, "f")
	if err != nil {
		return bad("!f")
	}
	s, err := zzvReadNode(w.ds, fnd)
	if err != nil {
		return bad("!read")
	}
	fsn, err := ft.ExtractFSNode(fnd)
	if err != nil {
		return bad("!unixfs")
	}
	return s, fsn.Mode() & 0xFFF, fsn.ModTime(), true
}

// zzvDirPair runs file operation fop and directory operation dop concurrently on a fresh tree and evaluates
// the oracle; returns the id of the first violated clause. With reps > 1 (native stress only) both operations
// are repeated back to back and only liveness is evaluated.
func zzvDirPair(fop, dop, reps int) (bad string) {
	check := func(id string, ok bool) {
		if !ok && bad == "" {
			bad = id
		}
	}
	w := zzvNewDirWorld()
	var ferr error
	var dr zzvDirRes
	done := make(chan struct{}, 2)
	go func() {
		for i := 0; i < reps; i++ {
			ferr = w.runFile(fop)
		}
		done <- struct{}{}
	}()
	go func() {
		for i := 0; i < reps; i++ {
			dr = w.runDir(dop)
		}
		done <- struct{}{}
	}()
	if !zzvAwait(done) || !zzvAwait(done) {
		return "C20.no-deadlock"
	}

	// afterwards, from one goroutine: every lock is free again and the tree is readable
	var content, fcontent string
	var mode, fmode os.FileMode
	var mtime, fmtime time.Time
	var ok, fok bool
	var syncErr error
	done2 := make(chan struct{})
	go func() {
		defer close(done2)
		syncErr = w.f.Sync()
		content, mode, mtime, ok = w.shown()
		fcontent, fmode, fmtime, fok = w.flushed()
	}()
	if !zzvAwait(done2) {
		return "C20.locks-released-after-operations"
	}
	if reps > 1 {
		return ""
	}

	check("C20.dir-file-operation-succeeds", ferr == nil)
	check("C20.dir-directory-operation-succeeds", dr.err == nil)
	check("C20.dir-tree-readable-afterwards", syncErr == nil && ok && fok)
	switch dop {
	case zzvDDList:
		// the listing shows the one entry, with the size of the old or the new content (equal here)
		check("C20.dir-listing-shows-the-file", len(dr.names) == 1 && dr.names[0] == "f" && dr.sizes[0] == int64(len(zzvDirOld)))
	case zzvDDGetNode:
		check("C20.dir-getnode-returns-node", dr.node != nil && len(dr.node.Links()) == 1 && dr.node.Links()[0].Name == "f")
	case zzvDDRootGetNode:
		check("C20.dir-getnode-returns-node", dr.node != nil && len(dr.node.Links()) == 1 && dr.node.Links()[0].Name == "d")
	}

	wantContent, wantMode, wantMtime := zzvDirOld, zzvMode0, zzvTime0
	switch fop {
	case zzvDFClose, zzvDFFlushClose:
		wantContent = zzvDirNew
	case zzvDFSetMode:
		wantMode = zzvModeA
	case zzvDFSetModTime:
		wantMtime = zzvTimeA
	}
	if ferr == nil {
		switch fop {
		case zzvDFClose, zzvDFFlushClose:
			check("C20.dir-closed-write-visible-in-lookup", content == wantContent)
			check("C20.dir-closed-write-in-flushed-root", fcontent == wantContent)
			// the file's metadata is not part of the written data: a write may refresh mtime, nothing else
			check("C20.dir-write-keeps-mode", mode == wantMode && fmode == wantMode)
		case zzvDFSetMode, zzvDFSetModTime:
			check("C20.dir-metadata-visible-in-lookup", mode == wantMode && mtime.Equal(wantMtime))
			check("C20.dir-metadata-in-flushed-root", fmode == wantMode && fmtime.Equal(wantMtime))
			check("C20.dir-metadata-operation-keeps-content", content == wantContent && fcontent == wantContent)
		}
	}
	return bad
}

var zzvDirPairIDs = []string{
	"C20.no-deadlock",
	"C20.locks-released-after-operations",
	"C20.dir-file-operation-succeeds",
	"C20.dir-directory-operation-succeeds",
	"C20.dir-tree-readable-afterwards",
	"C20.dir-listing-shows-the-file",
	"C20.dir-getnode-returns-node",
	"C20.dir-closed-write-visible-in-lookup",
	"C20.dir-closed-write-in-flushed-root",
	"C20.dir-write-keeps-mode",
	"C20.dir-metadata-visible-in-lookup",
	"C20.dir-metadata-in-flushed-root",
	"C20.dir-metadata-operation-keeps-content",
}

func zzvDirPairs(flo, fhi int) {
	// FOPS / DOPS: how many of the file-side operations of this entry / of the directory-side operations run
	if n := verifrt.Param("FOPS", 2); flo+n-1 < fhi {
		fhi = flo + n - 1
	}
	fop := verifrt.NondetRange("fop", flo, fhi)
	dop := verifrt.NondetRange("dop", 0, verifrt.Param("DOPS", zzvDDNum)-1)
	bad := zzvDirPair(fop, dop, 1)
	if !verifrt.Symbolic() {
		// a schedule cannot be forced on the Go runtime: repeat the pair on 8 Ps until a clause fails
		defer runtime.GOMAXPROCS(runtime.GOMAXPROCS(8))
		start := time.Now()
		for i := 0; bad == "" && i < 2000000 && time.Since(start) < 20*time.Second; i++ {
			bad = zzvDirPair(fop, dop, 1)
		}
		for i := 0; bad == "" && i < 2000000 && time.Since(start) < 40*time.Second; i++ {
			bad = zzvDirPair(fop, dop, 500)
		}
	}
	for _, id := range zzvDirPairIDs {
		verifrt.Assert(id, bad != id)
	}
	verifrt.Observe("fop", fop)
	verifrt.Reach("end")
}

// write descriptor Close / Flush || directory Flush / ForEachEntry / GetNode
func HarnessC20DirWrite() { zzvDirPairs(zzvDFClose, zzvDFFlushClose) }

// SetMode / SetModTime || directory Flush / ForEachEntry / GetNode
func HarnessC20DirMeta() { zzvDirPairs(zzvDFSetMode, zzvDFSetModTime) }

// the same with at most two pre-emptions (thorough tier)
func HarnessC20DirWrite2() { zzvDirPairs(zzvDFClose, zzvDFFlushClose) }
func HarnessC20DirMeta2()  { zzvDirPairs(zzvDFSetMode, zzvDFSetModTime) }
