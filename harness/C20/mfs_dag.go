package mfs

import (
	"context"

	dag "github.com/ipfs/boxo/ipld/merkledag"
	cid "github.com/ipfs/go-cid"
	ipld "github.com/ipfs/go-ipld-format"
)

// ---- in-memory DAG service ---------------------------------------------------------------------------------
//
// Like a block-backed service it snapshots a node when it is added and hands out a fresh, unshared node on
// every Get (the real one serialises on Add and decodes on Get).

type zzvDag struct {
	keys  []string
	nodes []ipld.Node
}

func zzvCloneNode(n ipld.Node) ipld.Node {
	switch nd := n.(type) {
	case *dag.ProtoNode:
		var d []byte
		if nd.Data() != nil {
			d = make([]byte, len(nd.Data()))
			copy(d, nd.Data())
		}
		c := dag.NodeWithData(d)
		c.SetCidBuilder(nd.CidBuilder())
		for _, l := range nd.Links() {
			c.AddRawLink(l.Name, l)
		}
		return c
	default:
		return n // raw nodes are immutable
	}
}

func (d *zzvDag) find(k string) int {
	for i := range d.keys {
		if d.keys[i] == k {
			return i
		}
	}
	return -1
}

func (d *zzvDag) Get(ctx context.Context, c cid.Cid) (ipld.Node, error) {
	if i := d.find(c.KeyString()); i >= 0 {
		return zzvCloneNode(d.nodes[i]), nil
	}
	return nil, ipld.ErrNotFound{Cid: c}
}

func (d *zzvDag) GetMany(ctx context.Context, cs []cid.Cid) <-chan *ipld.NodeOption {
	out := make(chan *ipld.NodeOption, len(cs))
	for _, c := range cs {
		n, err := d.Get(ctx, c)
		out <- &ipld.NodeOption{Node: n, Err: err}
	}
	close(out)
	return out
}

func (d *zzvDag) Add(ctx context.Context, n ipld.Node) error {
	k := n.Cid().KeyString()
	if d.find(k) >= 0 {
		return nil
	}
	d.keys = append(d.keys, k)
	d.nodes = append(d.nodes, zzvCloneNode(n))
	return nil
}

func (d *zzvDag) AddMany(ctx context.Context, ns []ipld.Node) error {
	for _, n := range ns {
		if err := d.Add(ctx, n); err != nil {
			return err
		}
	}
	return nil
}

func (d *zzvDag) Remove(ctx context.Context, c cid.Cid) error         { return nil }
func (d *zzvDag) RemoveMany(ctx context.Context, cs []cid.Cid) error { return nil }

